"""BookTracker: a sink that keeps one ShadowBook per market from tap events and calls
overridable hooks at the quiescent points (after each boundary call returned)."""
from .shadow import ShadowBook


class BookTracker:
    def __init__(self):
        self.books = {}
        self.pre = {}
        self.n_events = 0

    def book(self, mkt):
        b = self.books.get(mkt.market_id)
        if b is None:
            b = self.books[mkt.market_id] = ShadowBook(mkt.market_id)
        return b

    # hooks ---------------------------------------------------------------
    def on_accept(self, ev, book, so):
        pass

    def on_cancel(self, ev, book, so):
        pass

    def on_round(self, ev, book, pre, fills):
        """pre: {oid: (SOrder, remaining before round)}; fills: [(log, buy SOrder|None, sell SOrder|None)]"""
        pass

    def on_round_exc(self, ev, book, pre):
        pass

    def on_clock(self, ev, book, expired):
        pass

    def on_other(self, ev):
        pass

    # sink ----------------------------------------------------------------
    def on_event(self, ev):
        self.n_events += 1
        k = ev["k"]
        if k == "add_ret":
            book = self.book(ev["mkt"])
            so = book.on_accept(ev["log"], ev["order"])
            self.on_accept(ev, book, so)
        elif k == "exec_call":
            book = self.book(ev["mkt"])
            self.pre[book.market_id] = {oid: (so, so.rem) for oid, so in book.live.items()}
            self.on_other(ev)
        elif k == "exec_ret":
            book = self.book(ev["mkt"])
            pre = self.pre.pop(book.market_id, {})
            fills = []
            for log in ev["logs"]:
                b, s = book.on_fill(log)
                fills.append((log, b, s))
            self.on_round(ev, book, pre, fills)
        elif k == "exec_exc":
            book = self.book(ev["mkt"])
            pre = self.pre.pop(book.market_id, {})
            self.on_round_exc(ev, book, pre)
        elif k == "cancel_ret":
            book = self.book(ev["mkt"])
            so = book.on_cancel(ev["log"])
            self.on_cancel(ev, book, so)
        elif k == "time_ret":
            book = self.book(ev["mkt"])
            expired = book.on_clock(ev["time"])
            self.on_clock(ev, book, expired)
        else:
            self.on_other(ev)
