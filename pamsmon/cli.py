import argparse
import os
import sys

sys.path.insert(0, os.path.dirname(os.path.dirname(os.path.abspath(__file__))))


def main():
    ap = argparse.ArgumentParser()
    ap.add_argument("prop")
    ap.add_argument("--tier", default=None)
    ap.add_argument("--seed", type=int, default=None)
    ap.add_argument("--replay", default=None)
    ap.add_argument("--workers", type=int, default=None)
    a = ap.parse_args()
    tier = a.tier or os.environ.get("VERIF_TIER") or "quick"
    if tier not in ("quick", "thorough"):
        tier = "quick"
    seed = a.seed
    if seed is None:
        try:
            seed = int(os.environ.get("VERIF_SEED", "0"))
        except ValueError:
            seed = 0
    from pamsmon.core import check_main

    return check_main(a.prop.upper(), tier, seed, replay=a.replay, workers=a.workers)


if __name__ == "__main__":
    try:
        rc = main()
    except SystemExit:
        raise
    except BaseException:
        import traceback

        traceback.print_exc()
        print("CHECK-ERROR: the check itself failed (this is not a verdict)")
        rc = 3
    sys.exit(rc)
