"""put the repository under test first on sys.path and make sure that is what gets imported."""
import os
import sys
import warnings

_done = False


def init():
    global _done
    if _done:
        return
    repo = os.environ.get("PAMS_REPO", "/repo")
    repo = os.path.realpath(repo)
    if repo in sys.path:
        sys.path.remove(repo)
    sys.path.insert(0, repo)
    # the repository's own SyntaxWarnings (invalid escapes in docstrings) are not our business
    warnings.filterwarnings("ignore", category=SyntaxWarning)
    warnings.filterwarnings("ignore", category=DeprecationWarning)
    import pams  # noqa

    where = os.path.realpath(pams.__file__)
    if not where.startswith(repo + os.sep):
        raise RuntimeError("pams imported from %s, not from %s" % (where, repo))
    # warnings raised by pams on purpose (tick rounding, legacy keys): keep them quiet but countable
    warnings.filterwarnings("ignore", message="order price does not accord to the tick size.*")
    warnings.filterwarnings("ignore", message="price should be positive")
    _done = True
