"""C01 - trades honour both limits; one price per round, set by the resting side."""
import math
import numbers

from .. import taps
from ..core import canon_hash
from ..direct import DirectRun, gen_deep_cancel_history, gen_history
from ..tracker import BookTracker

RULE = (
    "direct drive: random histories (limit/market orders on and off the tick grid, cancels, clock steps, "
    "running toggles; continuous and batch clearing) on one real Market; runner drive: generated configurations "
    "with scripted agents. A case is one matching round; distinct = hash(pre-round shadow book, fills); "
    "non-trivial = round with >=2 fills, a market order, a same-step tie or a partially filled resting order."
    " Since the seeded rounds: every fill is also judged against the limit as it was handed to the market (before tick rounding); direct histories contain requests refused by design (foreign order, resubmission, foreign / unsubmitted cancel), forced rounds on a stopped market and cancel bursts in stopped phases; runner cases include a 'clipped' profile (price limit rule + far-out quotes of normal and HFT agents)."
)
ASSUMPTIONS = [
    "observation points Market._add_order/_cancel_order/_execution/_update_time are the calls the runner makes",
    "order ids are unique per market (checked; a duplicate is reported)",
]
REQUIRED = {
    "quick": {"rounds_with_fills": 300, "class/multi_level_sweep": 20, "class/tie_by_id": 10,
              "class/market_vs_limit": 20, "class/batch_clear_3": 10, "class/runner_rounds_with_fills": 20},
    "thorough": {"rounds_with_fills": 5000, "class/multi_level_sweep": 300, "class/tie_by_id": 100,
                 "class/market_vs_limit": 300, "class/batch_clear_3": 100, "class/runner_rounds_with_fills": 500},
}


def budget(tier):
    return 1600 if tier == "quick" else 60000


def gen_case(rng, tier, idx):
    if idx % 64 == 31:
        # a call auction whose first round matches more than a hundred pairs over dozens of price levels
        from ..runnerdrive import gen_big_auction_case

        c = gen_big_auction_case(rng)
        c["profile"] = "matching"
        return c
    if idx % 8 == 7:
        from ..runnerdrive import gen_runner_case

        return gen_runner_case(rng, tier, profile="matching", clipped=(rng.random() < 0.3))
    if idx % 8 in (5, 6):
        c = gen_deep_cancel_history(rng, tier)
        c["drive"] = "direct"
        return c
    if idx % 8 == 4:
        # orders leave only by expiry (several of one side in one clock step), then a sweep over two or more levels
        from ..direct import gen_expiry_history

        c = gen_expiry_history(rng, tier)
        c["drive"] = "direct"
        return c
    if idx % 16 == 2:
        # call auction on a deep book with market orders queued behind the limit orders
        from ..direct import gen_deep_auction_history

        c = gen_deep_auction_history(rng, tier)
        c["drive"] = "direct"
        return c
    if idx % 16 == 3:
        from ..direct import gen_both_sides_market_history

        c = gen_both_sides_market_history(rng, tier)
        c["drive"] = "direct"
        return c
    if idx % 16 == 11:
        # a small book and frequent requests that are refused by design between the normal ones
        c = gen_history(rng, tier, {"p_refused": 0.2, "max_levels": 4, "tick": rng.choice([1.0, 0.1, 0.5, 0.01])})
        c["drive"] = "direct"
        return c
    c = gen_history(rng, tier)
    c["drive"] = "direct"
    return c


def sample_of(case):
    if case.get("drive") == "direct":
        return {"drive": "direct", "tick": case["tick"], "p0": case["p0"], "mode": case["mode"], "ops": case["ops"][:25]}
    return {"drive": "runner", "seed": case.get("seed"), "sessions": case["config"]["simulation"]["sessions"]}


class C01Monitor(BookTracker):
    def __init__(self, res, drive):
        super().__init__()
        self.res = res
        self.drive = drive
        self.logger_prices = {}
        self.handed = {}     # id(order object) -> limit price as it was handed to the market
        self.limit_of = {}   # (market id, order id) -> that price

    def on_other(self, ev):
        if ev["k"] == "add_call":
            self.handed[id(ev["order"])] = (ev["order"], ev["snap"].get("price"))

    def on_accept(self, ev, book, so):
        h = self.handed.pop(id(ev["order"]), None)
        if h is not None and h[0] is ev["order"] and so is not None and not so.is_market and h[1] is not None:
            self.limit_of[(book.market_id, so.oid)] = h[1]
            if h[1] != so.price:
                self.res.count("class/limit_moved_at_acceptance")

    def written_limit(self, book, so, tick):
        """the limit as written by the submitter (the accepted price may differ by tick rounding, C19); with a tick
        that is not a power of two the grid itself is only exact up to a few ulp."""
        p = self.limit_of.get((book.market_id, so.oid))
        if p is None:
            return None, 0.0
        m, _ = math.frexp(float(tick))
        slack = 0.0 if m == 0.5 else 4 * math.ulp(max(abs(float(p)), float(tick)))
        return float(p), slack

    def on_round(self, ev, book, pre, fills):
        res = self.res
        res.count("rounds")
        if book.anomalies:
            res.violation("a", "duplicate-order-id", {"anomalies": book.anomalies[:3]})
            del book.anomalies[:]
        if not fills:
            return
        res.count("rounds_with_fills")
        if self.drive == "runner":
            res.count("class/runner_rounds_with_fills")
        mkt = ev["mkt"]
        prices = set()
        used = {}
        witness = lambda: {  # noqa
            "pre_book": [so.brief() | {"rem": rem} for so, rem in sorted(pre.values(), key=lambda x: x[0].key())],
            "fills": [taps.snap_log(l) for l, _, _ in fills],
            "market_time": ev["time"],
        }
        bad = False
        for log, _, _ in fills:
            res.count("fills")
            b = pre.get(log.buy_order_id)
            s = pre.get(log.sell_order_id)
            if b is None or s is None or not b[0].is_buy or s[0].is_buy:
                res.violation("a", "fill-not-one-resting-buy-and-one-resting-sell", witness())
                bad = True
                continue
            b, s = b[0], s[0]
            if log.market_id != mkt.market_id or log.buy_agent_id != b.agent_id or log.sell_agent_id != s.agent_id:
                res.violation("a", "fill-fields-do-not-match-orders", witness())
                bad = True
            if not isinstance(log.volume, numbers.Integral) or log.volume <= 0:
                res.violation("a", "fill-volume-not-positive", witness())
                bad = True
            if log.time != ev["time"]:
                res.violation("a", "fill-time-not-market-time", witness())
                bad = True
            used[b.oid] = used.get(b.oid, 0) + log.volume
            used[s.oid] = used.get(s.oid, 0) + log.volume
            if not b.is_market and log.price > b.price:
                res.violation("b", "price-above-buy-limit", witness())
                bad = True
            if not s.is_market and log.price < s.price:
                res.violation("b", "price-below-sell-limit", witness())
                bad = True
            if not bad:
                for so, sign, mech in ((b, 1, "price-above-the-limit-the-buyer-wrote"),
                                       (s, -1, "price-below-the-limit-the-seller-wrote")):
                    if so.is_market:
                        continue
                    wl, slack = self.written_limit(book, so, mkt.tick_size)
                    if wl is not None:
                        res.count("fills_checked_against_written_limit")
                        if sign * (log.price - wl) > slack:
                            res.violation("b", mech, dict(witness(), written_limit=wl, accepted_limit=so.price,
                                                          order_id=so.oid))
                            bad = True
            prices.add(log.price)
        for oid, v in used.items():
            if v > pre[oid][1]:
                res.violation("a", "filled-more-than-resting-volume", witness())
                bad = True
        if len(prices) > 1:
            res.violation("c", "several-prices-in-one-round", witness())
            bad = True
        # (d) the last matched pair decides the price
        llog = fills[-1][0]
        b = pre.get(llog.buy_order_id)
        s = pre.get(llog.sell_order_id)
        cls = []
        if b is not None and s is not None and not bad:
            b, s = b[0], s[0]
            if b.is_market and s.is_market:
                res.count("last_pair_both_market_orders(no claim)")
            else:
                if b.is_market:
                    expect = s.price
                    cls.append("market_vs_limit")
                elif s.is_market:
                    expect = b.price
                    cls.append("market_vs_limit")
                else:
                    if b.placed_at == s.placed_at:
                        cls.append("tie_by_id")
                    expect = b.price if b.stamp() < s.stamp() else s.price
                    if b.price != s.price:
                        res.count("last_pair_prices_differ")
                if llog.price != expect:
                    res.violation(
                        "d", "price-not-limit-of-earlier-accepted-order-of-last-pair",
                        dict(witness(), expected=expect, observed=llog.price),
                    )
        # classes
        lim_b = {pre[l.buy_order_id][0].price for l, _, _ in fills if l.buy_order_id in pre}
        lim_s = {pre[l.sell_order_id][0].price for l, _, _ in fills if l.sell_order_id in pre}
        if len(lim_b - {None}) >= 2 or len(lim_s - {None}) >= 2:
            cls.append("multi_level_sweep")
        nb = len({l.buy_order_id for l, _, _ in fills})
        ns = len({l.sell_order_id for l, _, _ in fills})
        if len(fills) >= 3 and nb >= 2 and ns >= 2:
            cls.append("batch_clear_3")
        partial = any(rem != so.vol0 for so, rem in pre.values() if so.oid in used)
        if partial:
            cls.append("partially_filled_resting")
        if any(pre[o][0].is_market for o in used):
            cls.append("with_market_order")
        for c in set(cls):
            res.count("class/" + c)
        nontrivial = len(fills) >= 2 or bool(cls)
        res.seen(canon_hash([book_canon(pre), [(l.price, l.volume) for l, _, _ in fills]]), nontrivial)

    def on_round_exc(self, ev, book, pre):
        self.res.count("round_raised(not decided here, see C03)")


def book_canon(pre):
    return sorted((so.is_buy, so.is_market, so.price, rem, so.placed_at, so.oid) for so, rem in pre.values())


def run_case(case, res):
    taps.install()
    if case.get("drive") == "runner":
        from ..runnerdrive import run_runner_case

        mon = C01Monitor(res, "runner")
        out = run_runner_case(case, [mon.on_event])
        # cross-check the two other observation points: logger stream and agent callbacks carry the same fills
        gt = [(id(l), l.price, l.volume) for l in out.fills]
        lg = {id(l) for l in out.logger.received if type(l).__name__ == "ExecutionLog"}
        cb = {id(l) for (_a, kind, l, _h) in out.callbacks if kind == "executed"}
        for lid, _, _ in gt:
            if lid not in lg:
                res.count("fill_not_seen_by_logger(see C10)")
            if lid not in cb:
                res.count("fill_not_seen_by_callback(see C11)")
        if out.error is not None:
            res.count("runner_case_aborted:" + type(out.error).__name__)
        return
    run = DirectRun(case)
    mon = C01Monitor(res, "direct")
    taps.add_sink(mon.on_event)
    try:
        run.run(on_op_exc=lambda i, op, e: res.count("op_raised:" + type(e).__name__) or "stop")
    finally:
        taps.remove_sink(mon.on_event)
