RULE = (
    "runner drive with scripted normal and HFT agents (two separate code paths in the runner), self-trades, "
    "rounds with many fills; built-in agents are tapped at the Agent base-class callbacks. Expected multiset of "
    "(agent, callback, record) from the markets' return values versus the observed callbacks; at every fill "
    "callback the agent's holdings must already contain the whole round. Case = one run; distinct = (seed, "
    "#expected callbacks); non-trivial = run with a self-trade or a round with >=3 fills."
)
ASSUMPTIONS = ["a callback carrying a field-equal record of the same type counts as 'that record'"]
BUDGET = {"quick": 300, "thorough": 48000}
REQUIRED = {
    "quick": {"callbacks_observed": 20000, "class/run_with_self_trade": 20,
              "class/run_with_round_of_3plus_fills": 20, "class/run_with_hft_path_events": 50,
              "class/run_with_normal_path_events": 100, "holdings_checked_at_fill_callback": 3000,
              "class/run_with_fills_under_a_trading_halt_rule": 15},
    "thorough": {"callbacks_observed": 500000, "class/run_with_self_trade": 500,
                 "class/run_with_round_of_3plus_fills": 500, "class/run_with_hft_path_events": 1500,
                 "class/run_with_normal_path_events": 3000, "holdings_checked_at_fill_callback": 80000,
                 "class/run_with_fills_under_a_trading_halt_rule": 400},
}


def extra_checks(case, res, out, mon):
    cfg = case.get("config", {})
    if "HALT" in cfg and out.fills:
        res.count("class/run_with_fills_under_a_trading_halt_rule")
