"""C19 - off-grid limit prices round to the tick grid, never more aggressively."""
import math
import struct
from fractions import Fraction

from .. import taps
from ..direct import SimStub

RULE = (
    "direct drive of Market._add_order (market not running, so nothing trades): tick menu x generated prices "
    "(uniform, log-uniform, k*tick, k*tick +- 1..3 ulp, short decimals, prices below one tick), both sides; plus "
    "runner-drive acceptances of off-grid orders requested by scripted agents. Oracle in exact rational arithmetic "
    "on the float inputs. Case = one (tick, price, side) acceptance; distinct = that triple; non-trivial = the "
    "price is off the grid (exact test) or within 3 ulp of a grid point."
    ' Since the seeded rounds: every 7th order is first offered to a second venue with another grid (refused there), off-grid time-0 prices with orders pegged exactly to get_market_price(), a pegged template and a placement-only opening session in the runner cases; every other runner case has a price limit rule with off-grid band edges, and the price judged is the one handed to the market after the rule rewrote it.'
)
ASSUMPTIONS = [
    "slack: none when the tick is a power of two (the engine's division is exact); otherwise 4 ulp(max(price, tick)) "
    "in direction and distance, which is the 'floating-point representation of the grid' the statement allows",
    "grid membership: accepted == k*tick exactly over the rationals when the tick is a power of two, else |accepted - k*tick| <= 4 ulp(accepted)",
]
TICKS = [1.0, 2.0, 0.5, 0.25, 0.125, 10.0, 3.0, 0.1, 0.01, 0.05, 1e-5, 7.0, 0.3, 1024.0, 2.0 ** -10, 0.2, 100.0, 1, 5, 100]
REQUIRED = {
    "quick": {"acceptances": 50000, "class/off_grid_buy": 5000, "class/off_grid_sell": 5000, "class/on_grid": 5000,
              "class/near_grid_ulp": 3000, "class/power_of_two_tick_exact": 5000, "class/runner_offgrid": 50,
              "class/non_builtin_bool_side_flag": 2000,
              "class/offered_to_another_venue_first_and_refused_there": 4000,
              "class/pegged_to_the_published_market_price": 800,
              "class/runner_price_rewritten_by_a_rule_before_acceptance": 100},
    "thorough": {"acceptances": 1000000, "class/off_grid_buy": 100000, "class/off_grid_sell": 100000,
                 "class/on_grid": 100000, "class/near_grid_ulp": 50000, "class/power_of_two_tick_exact": 100000,
                 "class/runner_offgrid": 1000, "class/non_builtin_bool_side_flag": 40000,
                 "class/offered_to_another_venue_first_and_refused_there": 80000,
                 "class/pegged_to_the_published_market_price": 16000,
                 "class/runner_price_rewritten_by_a_rule_before_acceptance": 2000},
}
BATCH = 250


def budget(tier):
    return 400 if tier == "quick" else 18000


def _nudge(x, n):
    """the float n ulps away from x."""
    (i,) = struct.unpack("<q", struct.pack("<d", x))
    return struct.unpack("<d", struct.pack("<q", i + n))[0]


def gen_case(rng, tier, idx):
    if idx % 20 == 19:
        from ..runnerdrive import gen_runner_case

        # every other runner case has a price limit rule on all markets whose band edges lie off the grid (50 ticks
        # x (1 +- 0.01)): the rule moves far quotes to an off-grid edge BEFORE the market sees them
        c = gen_runner_case(rng, tier, profile="matching", style="plain", clipped=(idx % 40 == 39))
        c["hooks_change_prices"] = (idx % 40 == 39)
        # the spot markets reach the runner as the last block of a two-level extends chain whose template has another
        # tick size; the tick a price is judged against is the CONFIGURED one
        for name, v in c["config"].items():
            if isinstance(v, dict) and v.get("class") in ("Market", "DepthMarket") and (idx // 20) % 2 == 0:
                v["viaExtends"] = True
        for name, v in c["config"].items():
            if isinstance(v, dict) and "program" in v:
                for w, tpl in v["program"]["actions"]:
                    if tpl["a"] == "limit":
                        tpl["offgrid"] = 1.0
                # orders pegged exactly to the published market price (a mid price, off the grid when the spread
                # is an odd number of ticks and nothing has traded yet)
                v["program"]["actions"].append([4, {"a": "limit", "side": "any", "off": [0, 0], "vol": [1, 2],
                                                    "ttl": [2, 5], "offgrid": 0.0}])
        if rng.random() < 0.6:
            # a placement-only opening session builds the book; nothing trades, so the market price is the mid price
            ss = c["config"]["simulation"]["sessions"]
            ss[0]["withOrderExecution"] = False
            ss[0]["withOrderPlacement"] = True
        return c
    tick = rng.choice(TICKS)
    prices = []
    for _ in range(BATCH):
        r = rng.random()
        if r < 0.25:
            p = rng.uniform(0.01, 1000.0) * rng.choice([1, 1, 10, 1000])
        elif r < 0.4:
            p = 10 ** rng.uniform(-2, 6)
        elif r < 0.55:
            p = rng.randint(1, 100000) * tick
        elif r < 0.75:
            p = _nudge(rng.randint(1, 100000) * tick, rng.choice([-3, -2, -1, 1, 2, 3]))
        elif r < 0.85:
            p = round(rng.uniform(0.01, 5000), rng.choice([0, 1, 2, 3]))
        elif r < 0.9:
            p = rng.random() * tick  # below one tick
        else:
            p = (rng.randint(1, 10 ** rng.randint(1, 7)) + rng.random()) * tick
        if not (p > 0) or p > 1e6 * max(1.0, tick):
            p = rng.uniform(0.01, 1000.0)
        prices.append([p, rng.random() < 0.5])
    case = {"drive": "direct", "tick": tick, "prices": prices}
    if idx % 10 == 3:
        case["warnings_as_errors"] = True
    if rng.random() < 0.4:
        # the market's own published price is off the grid (an off-grid configured price, or a mid price of an odd
        # spread before the first trade) and orders are pegged exactly to it
        case["p0_frac"] = rng.choice([0.5, 0.25, 0.75, rng.random()])
        for _ in range(12):
            prices[rng.randrange(len(prices))] = ["PEG", rng.random() < 0.5]
    if rng.random() < 0.15:
        case["retick"] = rng.choice([t for t in TICKS if t != tick])
        half = len(prices) // 2
        case["prices"] = prices[:half] + prices[:half]
    return case


def sample_of(case):
    if case.get("drive") == "direct":
        return {"tick": case["tick"], "p0_frac": case.get("p0_frac"), "prices": case["prices"][:12]}
    return {"drive": "runner", "seed": case["seed"]}


def is_pow2(x):
    m, _ = math.frexp(x)
    return m == 0.5


def judge(res, tick, p, is_buy, a, where):
    """p: submitted float price, a: accepted price."""
    res.count("acceptances")
    P, T = Fraction(p), Fraction(tick)
    if not isinstance(a, (int, float)) or a != a:
        res.violation("grid", "accepted-price-not-a-number", {"tick": tick, "price": p, "accepted": repr(a)})
        return
    A = Fraction(a)
    on_grid = (P % T) == 0
    exact = is_pow2(tick)
    slack = Fraction(0) if exact else Fraction(4 * math.ulp(max(abs(p), tick)))
    wit = {"tick": tick, "submitted": p, "is_buy": is_buy, "accepted": a, "where": where,
           "submitted_hex": float(p).hex(), "accepted_hex": float(a).hex(), "slack": float(slack)}
    k_near = A / T
    k0 = int(k_near) if k_near >= 0 else int(k_near) - 1
    near = min(abs(A - k * T) for k in (k0, k0 + 1))
    if on_grid:
        res.count("class/on_grid")
        if a != p:
            res.violation("on-grid-unchanged", "on-grid-price-changed", wit)
        return
    res.count("class/off_grid_buy" if is_buy else "class/off_grid_sell")
    if exact:
        res.count("class/power_of_two_tick_exact")
    kp = P / T
    dist_to_grid = min(kp - math.floor(kp), math.ceil(kp) - kp) * T
    if dist_to_grid <= Fraction(4 * math.ulp(p)):
        res.count("class/near_grid_ulp")
    # on the grid?
    if near > (Fraction(0) if exact else Fraction(4 * math.ulp(a if a != 0 else tick))):
        res.violation("grid", "accepted-price-not-on-the-tick-grid", wit)
        return
    if is_buy:
        if A > P + slack:
            res.violation("direction", "buy-price-rounded-more-aggressively(up)", wit)
        elif not (P - A < T + slack):
            res.violation("distance", "price-moved-by-a-tick-or-more", wit)
    else:
        if A < P - slack:
            res.violation("direction", "sell-price-rounded-more-aggressively(down)", wit)
        elif not (A - P < T + slack):
            res.violation("distance", "price-moved-by-a-tick-or-more", wit)
    if not exact and ((is_buy and A > P) or (not is_buy and A < P) or abs(A - P) >= T):
        res.count("within_slack_deviation(decimal or non-dyadic tick)")


def run_case(case, res):
    taps.install()
    if case.get("drive") == "runner":
        from ..runnerdrive import run_runner_case

        req = {}

        handed = {}

        def sink(ev):
            if ev["k"] == "consult_ret":
                for o, s in zip(ev["orders"], ev["snaps"]):
                    if "price" in s:
                        req[id(o)] = (o, s)
            elif ev["k"] == "add_call":
                handed[id(ev["order"])] = ev["snap"]
            elif ev["k"] == "add_ret":
                r = req.get(id(ev["order"]))
                if case.get("hooks_change_prices"):
                    # an event may have rewritten the price the agent asked for: the price that is moved onto the
                    # grid is the one handed to the market
                    r = (ev["order"], handed.get(id(ev["order"]))) if handed.get(id(ev["order"])) else None
                if r is not None and r[1].get("price") is not None:
                    q = req.get(id(ev["order"]))
                    if case.get("hooks_change_prices") and q is not None and q[1].get("price") != r[1]["price"]:
                        res.count("class/runner_price_rewritten_by_a_rule_before_acceptance")
                    blk = case["config"].get(ev["mkt"].name)
                    tick_cfg = blk["tickSize"] if isinstance(blk, dict) and "tickSize" in blk else ev["mkt"].tick_size
                    if isinstance(blk, dict) and blk.get("viaExtends"):
                        res.count("class/runner_market_configured_through_an_extends_chain")
                    judge(res, tick_cfg, r[1]["price"], r[1]["is_buy"], ev["log"].price, "runner")
                    res.count("class/runner_offgrid")
                    if ev["order"].price != ev["log"].price:
                        res.violation("record", "order-price-differs-from-order-log-price", {"order": ev["snap"]})

        out = run_runner_case(case, [sink])
        if out.error is not None:
            res.count("runner_case_aborted:" + type(out.error).__name__)
        return
    import random

    from pams.market import Market
    from pams.order import LIMIT_ORDER, Order

    tick = case["tick"]
    m = Market(market_id=0, prng=random.Random(0), simulator=SimStub(), name="m")
    p0 = (100 + case.get("p0_frac", 0.0)) * tick
    m.setup({"tickSize": tick, "marketPrice": p0})
    m._update_time(next_fundamental_price=100 * tick)
    m._is_running = False
    # a second venue with another grid: a router that tries venues in turn offers some orders to it first
    others = [t for t in TICKS if t != tick]
    first = next(p_ for p_, _ in case["prices"] if p_ != "PEG")
    other_tick = others[int(first * 1000) % len(others)]
    m2 = Market(market_id=1, prng=random.Random(1), simulator=SimStub(), name="m2")
    m2.setup({"tickSize": other_tick, "marketPrice": 100 * other_tick})
    m2._update_time(next_fundamental_price=100 * other_tick)
    m2._is_running = False
    seen = set()
    import numpy as np

    retick = case.get("retick")

    for j, (p, is_buy) in enumerate(case["prices"]):
        if p == "PEG":
            p = m.get_market_price()
            res.count("class/pegged_to_the_published_market_price")
        flag = is_buy
        if j % 9 == 4:
            # a side flag that is truthy/falsy without being the bool singleton (e.g. from a numpy comparison)
            flag = (np.bool_(is_buy), int(is_buy))[(j // 9) % 2]
            res.count("class/non_builtin_bool_side_flag")
        o = Order(agent_id=0, market_id=0, is_buy=flag, kind=LIMIT_ORDER, volume=1, price=p, ttl=1)
        if j % 7 == 3:
            try:
                m2._add_order(o)
            except ValueError:
                res.count("class/offered_to_another_venue_first_and_refused_there")
            else:
                res.violation("accept", "order-for-another-market-accepted", {"tick": tick, "price": p})
                continue
        if case.get("warnings_as_errors"):
            # a caller that escalates warnings (python -W error, pytest filterwarnings=error): an off-grid order may
            # then be refused with the warning - but whatever IS accepted must still be on the grid
            import warnings as _w

            try:
                with _w.catch_warnings():
                    _w.simplefilter("error")
                    log = m._add_order(o)
            except UserWarning:
                res.count("class/refused_under_warnings_as_errors")
                continue
            except Exception as e:  # noqa
                res.violation("accept", "valid-limit-order-refused:" + type(e).__name__,
                              {"tick": tick, "price": p, "is_buy": is_buy, "exc": repr(e), "warnings": "error"})
                continue
            judge(res, tick, p, is_buy, log.price, "direct(warnings as errors)")
            res.count("class/accepted_under_warnings_as_errors")
            continue
        try:
            log = m._add_order(o)
        except Exception as e:  # noqa
            res.violation("accept", "valid-limit-order-refused:" + type(e).__name__,
                          {"tick": tick, "price": p, "is_buy": is_buy, "exc": repr(e)})
            continue
        judge(res, tick, p, is_buy, log.price, "direct")
        if o.price != log.price:
            res.violation("record", "order-price-differs-from-order-log-price", {"order": taps.snap_order(o)})
        on_grid = (Fraction(p) % Fraction(tick)) == 0
        key = "%016x" % (hash((tick, p, is_buy)) & 0xFFFFFFFFFFFFFFFF)
        if key not in seen:
            seen.add(key)
            nontrivial = (not on_grid)
            res.seen(key, nontrivial)
        if retick and j == len(case["prices"]) // 2:
            # the tick size of a live market is changed; the same prices are then submitted again
            m.tick_size = retick
            tick = retick
            res.count("class/tick_size_changed_on_live_market")
