RULE = (
    "runner drive: 1-3 markets (optionally an index market), scripted normal and HFT agents, self-trades forced "
    "by agents quoting both sides, batch clearing after placement-only sessions. Ledger = endowments captured "
    "after setup folded with the fills returned by the matching rounds; compared with get_cash_amount / "
    "get_asset_volume at every agent callback, every consultation, every step record and at the end; totals per "
    "market and of cash. Case = one run; distinct = (seed, #fills, #self-trades, max fills per round); "
    "non-trivial = run with a self-trade or a round with >=3 fills."
)
ASSUMPTIONS = ["shares compared exactly; cash within 1e-11 x (|endowment| + sum |flows|) per agent",
               "fills are taken from the matching rounds' return values (independent of the logger)"]
BUDGET = {"quick": 300, "thorough": 48000}
REQUIRED = {
    "quick": {"fills": 3000, "class/run_with_self_trade": 20, "class/run_with_round_of_3plus_fills": 20,
              "class/run_with_fills_on_hft_path": 20, "holdings_comparisons": 20000, "total_checks": 1000,
              "class/run_with_fills_at_price_zero": 3, "class/run_with_more_than_100_fills_at_one_market_time": 3},
    "thorough": {"fills": 100000, "class/run_with_self_trade": 500, "class/run_with_round_of_3plus_fills": 500,
                 "class/run_with_fills_on_hft_path": 500, "holdings_comparisons": 500000, "total_checks": 30000,
                 "class/run_with_fills_at_price_zero": 250, "class/run_with_more_than_100_fills_at_one_market_time": 300},
}


def extra_checks(case, res, out, mon):
    per_round = {}
    for l in out.fills:
        per_round[(l.market_id, l.time)] = per_round.get((l.market_id, l.time), 0) + 1
    if per_round and max(per_round.values()) > 100:
        res.count("class/run_with_more_than_100_fills_at_one_market_time")
    n0 = sum(1 for l in out.fills if l.price == 0)
    if n0:
        res.count("class/run_with_fills_at_price_zero")
        res.count("fills_at_price_zero", n0)
