"""C18 - config expansion: inheritance, counts/ranges, names, random values, aliases."""
import copy
import math
import random
import sys
import warnings

from ..core import canon_hash

RULE = (
    "differential testing against small reference functions written from the statement: (a) json_extends on "
    "random forests of 1-12 entries (chains, shared parents, cycles, self-loops, missing parents, excluded keys) "
    "with a logical line budget as the 'instead of looping' watchdog; (b) SequentialRunner._setup on "
    "configurations whose market and agent groups use counts 0..12 and inclusive ranges of every length 1..12 "
    "with offsets, prefixes, and invalid combinations; (c) accessible markets versus the union of listed groups; "
    "(d) JsonRandom on every distribution form incl. malformed ones, support and mean; (e) find_class on every "
    "built-in name, registered user classes, clashes and unknown names; (f) Session.setup with legacy versus "
    "current keys, and session lists of 2-4 sessions set up by the runner in which the same legacy key returns in a later session. Case = one generated input; distinct = hash of the input; non-trivial = inheritance depth >=1 "
    "or error case / group with >=2 entities / non-constant distribution / user class / legacy key."
)
ASSUMPTIONS = [
    "json_extends line budget: 200 + 60 x (entries + keys) executed lines",
    "uniform support is closed [min,max] (float-safe); means within 6.5 standard errors of 1500 draws",
]
REQUIRED = {
    "quick": {"extends/ok": 700, "extends/cycle_refused": 80, "extends/missing_parent_refused": 80,
              "extends/depth>=3": 110, "extends/excluded_key_in_parent": 150, "groups/range_len_1": 20,
              "groups/range_len_2": 20, "groups/range_len>=3": 100, "groups/count": 100, "groups/count_0": 5,
              "groups/invalid_refused": 30, "groups/count_inherited_from_listed_group": 20, "access/checked_agents": 500, "random/values": 100000,
              "random/malformed_refused": 200, "class/builtin_resolved": 200, "class/user_resolved": 30,
              "class/clash_refused": 30, "class/unknown_refused": 30, "class/names_containing_one_another_resolved": 300, "legacy/pairs_compared": 100,
              "legacy/both_spellings_refused": 20, "legacy/same_legacy_key_in_two_sessions_of_one_list": 30},
    "thorough": {"extends/ok": 21000, "extends/cycle_refused": 2400, "extends/missing_parent_refused": 2400,
                 "extends/depth>=3": 4500, "extends/excluded_key_in_parent": 4500, "groups/range_len_1": 500,
                 "groups/range_len_2": 500, "groups/range_len>=3": 3000, "groups/count": 3000, "groups/count_0": 150,
                 "groups/invalid_refused": 900, "groups/count_inherited_from_listed_group": 600, "access/checked_agents": 15000, "random/values": 3000000,
                 "random/malformed_refused": 6000, "class/builtin_resolved": 6000, "class/user_resolved": 900,
                 "class/clash_refused": 900, "class/unknown_refused": 900, "class/names_containing_one_another_resolved": 9000, "legacy/pairs_compared": 3000,
                 "legacy/both_spellings_refused": 600, "legacy/same_legacy_key_in_two_sessions_of_one_list": 900},
}
KINDS = ["extends", "extends", "extends", "extends", "groups", "groups", "random", "class", "legacy", "extends"]


def budget(tier):
    return 3000 if tier == "quick" else 360000


# ---------------------------------------------------------------------------
# generation
# ---------------------------------------------------------------------------
KEYS = ["a", "b", "c", "d", "class", "from", "to", "numAgents", "prefix", "markets", "x"]


def gen_forest(rng):
    n = rng.randint(1, 12)
    names = ["E%d" % i for i in range(n)]
    whole = {}
    p_ext = rng.choice([0.5, 0.8, 0.95])
    p_fwd = rng.choice([0.7, 0.9, 1.0])
    p_miss = rng.choice([0.0, 0.03, 0.1])
    for i, nm in enumerate(names):
        e = {}
        for k in rng.sample(KEYS, rng.randint(0, 5)):
            e[k] = rng.choice([i, "%s.%s" % (nm, k), [i, k], {"n": i}, None, 1.5])
        r = rng.random()
        if r < p_ext and n > 1:
            # mostly point to a later entry (acyclic), sometimes anywhere (cycles, self loops)
            if rng.random() < p_fwd:
                if i + 1 < n:
                    e["extends"] = names[min(n - 1, i + 1 + int(rng.random() ** 2 * (n - i - 1)))]
            else:
                e["extends"] = rng.choice(names)
        elif r < p_ext + p_miss:
            e["extends"] = "MISSING%d" % rng.randint(0, 3)
        whole[nm] = e
    whole["simulation"] = {"markets": [], "agents": []}
    target_name = names[0] if rng.random() < 0.6 else rng.choice(names)
    excludes = rng.choice([None, [], ["from", "to"], ["numAgents", "from", "to", "prefix"], ["a", "x"]])
    separate = rng.random() < 0.15
    return {"kind": "extends", "whole": whole, "name": target_name, "excludes": excludes, "separate": separate}


def gen_groups(rng):
    cfg = {"simulation": {"markets": [], "agents": [], "sessions": [
        {"sessionName": 0, "iterationSteps": 1, "withOrderPlacement": True, "withOrderExecution": True, "withPrint": False}]}}
    expect = {"markets": [], "agents": [], "invalid": None}

    def group(kind, name, base):
        key = "numMarkets" if kind == "markets" else "numAgents"
        g = dict(base)
        r = rng.random()
        spec = {}
        if r < 0.3:
            n = rng.choice([0, 1, 1, 2, 3, 5, 12]) if kind == "agents" else rng.choice([1, 1, 2, 3, 6])
            if r < 0.02:
                n = [256, 257, 300, 400][int(r * 200) % 4]        # one group of several hundred entities
            spec[key] = n
            cls = "count"
        elif r < 0.85:
            a = rng.choice([0, 0, 1, 5, 100])
            ln = rng.choice([1, 2, 2, 3, 4, 7, 12])
            if r < 0.32:
                ln = [256, 257, 300, 1000][int(r * 200) % 4]
            spec["from"], spec["to"] = a, a + ln - 1
            n = ln
            cls = "range"
        else:
            n = 1
            cls = "single"
        if rng.random() < 0.25:
            spec["prefix"] = name + "_p"
        invalid = None
        ri = rng.random()
        if ri < 0.04 and cls == "range":
            spec[key] = n
            invalid = "count-and-range"
        elif ri < 0.08 and cls == "range":
            del spec[rng.choice(["from", "to"])]
            invalid = "half-range"
        g.update(spec)
        return g, n, cls, invalid

    n_mg = rng.randint(1, 3)
    use_extends = rng.random() < 0.4
    if use_extends:
        cfg["BaseMarket"] = {"class": "Market", "tickSize": 0.5, "marketPrice": 100.0, "from": 7, "to": 9}
    inherit_count = {}
    has_count_key = {}     # does the group's effective setting (own keys + ancestors) carry numMarkets / numAgents?

    def derived(kind, name, parent, listed=None):
        """a group that extends an earlier, already listed group and may rely on its inherited count / prefix."""
        key = "numMarkets" if kind == "markets" else "numAgents"
        g = {"extends": parent}
        if listed is not None and rng.random() < 0.5:
            g["markets"] = listed
        r = rng.random()
        if r < 0.6:
            n, cls = inherit_count[parent], "inherited-count"     # nothing of its own: nearest ancestor's count
        elif r < 0.8:
            n = rng.choice([1, 2, 5])
            g[key] = n
            cls = "count"
        else:
            a = rng.choice([0, 3])
            n = rng.choice([1, 2, 4])
            g["from"], g["to"] = a, a + n - 1
            cls = "range"
            if has_count_key[parent]:
                # an inherited count next to an own range is the documented invalid combination
                return g, n, cls, "count-and-range"
        return g, n, cls, None

    for i in range(n_mg):
        name = "MG%d" % i
        prev = "MG%d" % (i - 1)
        if i >= 1 and rng.random() < 0.35 and "prefix" not in cfg[prev] and expect["invalid"] is None:
            g, n, cls, invalid = derived("markets", name, prev)
        else:
            base = {"extends": "BaseMarket"} if use_extends else {"class": "Market", "tickSize": 1.0, "marketPrice": 100.0 + i}
            g, n, cls, invalid = group("markets", name, base)
        cfg[name] = g
        inherit_count[name] = n if cls in ("count", "inherited-count") else 1
        has_count_key[name] = "numMarkets" in g or (g.get("extends") in has_count_key and has_count_key[g["extends"]])
        cfg["simulation"]["markets"].append(name)
        expect["markets"].append((name, n, cls))
        if invalid and expect["invalid"] is None:
            expect["invalid"] = (name, invalid)
    for i in range(rng.randint(1, 3)):
        name = "AG%d" % i
        prev = "AG%d" % (i - 1)
        listed = rng.sample(cfg["simulation"]["markets"], rng.randint(1, n_mg))
        if i >= 1 and rng.random() < 0.35 and "prefix" not in cfg[prev] and expect["invalid"] is None:
            g, n, cls, invalid = derived("agents", name, prev, listed)
            if "markets" not in g:
                listed = [x for x in expect["agents"] if x[0] == prev][0][3]
        else:
            base = {"class": "TestAgent", "markets": listed, "cashAmount": 100, "assetVolume": 1}
            g, n, cls, invalid = group("agents", name, base)
        cfg[name] = g
        inherit_count[name] = n if cls in ("count", "inherited-count") else 1
        has_count_key[name] = "numAgents" in g or (g.get("extends") in has_count_key and has_count_key[g["extends"]])
        cfg["simulation"]["agents"].append(name)
        expect["agents"].append((name, n, cls, listed))
        if invalid and expect["invalid"] is None:
            expect["invalid"] = (name, invalid)
    return {"kind": "groups", "config": cfg, "expect": expect, "seed": rng.randrange(1 << 30)}


def gen_random_spec(rng):
    specs = []
    for _ in range(6):
        r = rng.random()
        a = rng.choice([0, 1, -5, 10.5, 1000])
        b = a + rng.choice([0, 1e-9, 1, 3.5, 1e6])
        if r < 0.15:
            specs.append(([a, b], "uniform", (a, b)))
        elif r < 0.3:
            specs.append(({"uniform": [a, b]}, "uniform", (a, b)))
        elif r < 0.42:
            specs.append(({"const": [a]}, "const", (a,)))
        elif r < 0.54:
            s = rng.choice([0.0, 1.0, 25.0])
            specs.append(({"normal": [a, s]}, "normal", (a, s)))
        elif r < 0.66:
            lam = rng.choice([0.5, 3, 100])
            specs.append(({"expon": [lam]}, "expon", (lam,)))
        elif r < 0.72:
            specs.append((rng.choice([3, 2.5, -1, 0]), "plain", None))
        else:
            bad = rng.choice([
                [a], [a, b, a], [], {"uniform": [a]}, {"uniform": a}, {"const": [a, b]}, {"const": a},
                {"normal": [a]}, {"normal": a}, {"expon": [a, b]}, {"expon": a}, {"gamma": [1, 2]},
                {"uniform": [a, b], "const": [a]}, {}, {"uniform": [a, b, a]},
            ])
            specs.append((bad, "malformed", None))
    return {"kind": "random", "specs": specs, "seed": rng.randrange(1 << 30)}


BUILTIN = ["Market", "IndexMarket", "FCNAgent", "ArbitrageAgent", "MarketMakerAgent", "MarketShareFCNAgent",
           "TestAgent", "HighFrequencyAgent", "Agent", "FundamentalPriceShock", "OrderMistakeShock", "PriceLimitRule",
           "TradingHaltRule", "EventABC", "Logger", "MarketStepSaver", "MarketStepPrintLogger", "Simulator", "Session",
           "Fundamentals", "OrderBook", "Order", "Cancel", "SequentialRunner", "JsonRandom"]


def gen_class(rng):
    return {"kind": "class", "names": rng.sample(BUILTIN, 6), "user": ["MyAgent%d" % rng.randint(0, 9), "Custom_%d" % rng.randint(0, 9)],
            "clash": rng.choice(["FCNAgent", "Market", "Logger", "TradingHaltRule"]),
            "unknown": rng.choice(["NoSuchClass", "fcnagent", "Markets", "FCNAgent ", ""]), "two_users_same_name": rng.random() < 0.3}


def gen_legacy(rng):
    base = {"sessionName": 0, "iterationSteps": rng.randint(1, 50), "withOrderPlacement": rng.random() < 0.5,
            "withOrderExecution": rng.random() < 0.5, "withPrint": rng.random() < 0.5}
    if rng.random() < 0.5:
        base["maxNormalOrders"] = rng.randint(0, 9)
    which = rng.choice(["maxHifreqOrders", "hifreqSubmitRate", "both-legacy"])
    # ... and a whole session list handed to the runner: every session chooses, per parameter, the legacy spelling, the
    # current one or none (so that the same legacy key comes back in a later session with another value)
    sessions = []
    for i in range(rng.choice([2, 2, 3, 4])):
        sessions.append({"cap": rng.choice([None, "legacy", "legacy", "current"]), "cap_v": rng.randint(0, 7),
                         "rate": rng.choice([None, "legacy", "legacy", "current"]), "rate_v": rng.choice([0.0, 0.25, 0.5, 0.75, 1.0]),
                         "steps": rng.randint(0, 5)})
    return {"kind": "legacy", "base": base, "which": which, "cap": rng.randint(0, 7), "rate": rng.choice([0.0, 0.25, 0.5, 1.0]),
            "both": rng.random() < 0.25, "sessions": sessions}


def gen_case(rng, tier, idx):
    k = KINDS[idx % len(KINDS)]
    return {"extends": gen_forest, "groups": gen_groups, "random": gen_random_spec, "class": gen_class, "legacy": gen_legacy}[k](rng)


def sample_of(case):
    c = dict(case)
    c.pop("_idx", None)
    return c


# ---------------------------------------------------------------------------
# (a) json_extends
# ---------------------------------------------------------------------------
class Missing(Exception):
    pass


class Cycle(Exception):
    pass


def ref_extends(whole, name, target, excludes):
    excludes = excludes or []
    out = {k: v for k, v in target.items() if k != "extends"}
    seen = [name]
    cur = target
    depth = 0
    while "extends" in cur:
        p = cur["extends"]
        if p not in whole:
            raise Missing(p)
        if p in seen:
            raise Cycle(p)
        seen.append(p)
        cur = whole[p]
        depth += 1
        for k, v in cur.items():
            if k == "extends" or k in excludes:
                continue
            out.setdefault(k, v)
    return out, depth


class LineBudget(BaseException):
    pass


def with_line_budget(fn, budget):
    n = [0]

    def tr(frame, event, arg):
        if event == "line":
            n[0] += 1
            if n[0] > budget:
                sys.settrace(None)
                raise LineBudget()
        return tr

    sys.settrace(tr)
    try:
        return fn(), n[0]
    finally:
        sys.settrace(None)


def run_extends(case, res):
    from pams.utils.json_extends import json_extends

    whole = case["whole"]
    name = case["name"]
    target = whole[name] if not case["separate"] else dict(whole[name], own_only=1)
    excludes = case["excludes"]
    w0, t0 = copy.deepcopy(whole), copy.deepcopy(target)
    try:
        exp, depth = ref_extends(whole, name, target, excludes)
        exp_kind = "ok"
    except Missing:
        exp, depth, exp_kind = None, 0, "missing"
    except Cycle:
        exp, depth, exp_kind = None, 0, "cycle"
    size = sum(len(v) + 1 for v in whole.values())
    wit = {"whole": whole, "name": name, "excludes": excludes, "separate_target": case["separate"]}
    try:
        got, lines = with_line_budget(
            lambda: json_extends(whole_json=whole, parent_name=name, target_json=target, excludes_fields=excludes),
            200 + 60 * size)
        res.maximum("extends_max_lines", lines)
        got_kind = "ok"
    except LineBudget:
        res.violation("terminates", "json-extends-loops-instead-of-reporting", wit)
        return
    except ValueError as e:
        got, got_kind = None, "ValueError"
    except Exception as e:  # noqa
        got, got_kind = None, type(e).__name__
        wit["exc"] = repr(e)
    if exp_kind == "ok":
        if got_kind != "ok":
            res.violation("inherit", "valid-inheritance-refused", dict(wit, got=got_kind))
        elif got != exp:
            res.violation("inherit", "inheritance-result-differs-from-nearest-ancestor-rule", dict(wit, observed=got, expected=exp))
        else:
            res.count("extends/ok")
            if depth >= 3:
                res.count("extends/depth>=3")
            if excludes and depth >= 1:
                # did an ancestor define an excluded key?
                cur = target
                hit = False
                while "extends" in cur:
                    cur = whole[cur["extends"]]
                    hit = hit or any(k in cur for k in excludes)
                if hit:
                    res.count("extends/excluded_key_in_parent")
    else:
        if got_kind != "ValueError":
            res.violation("errors", "%s-not-reported-as-ValueError" % ("missing-parent" if exp_kind == "missing" else "inheritance-cycle"),
                          dict(wit, got=got_kind, result=got))
        else:
            res.count("extends/cycle_refused" if exp_kind == "cycle" else "extends/missing_parent_refused")
    if whole != w0 or target != t0:
        res.violation("no-mutation", "json-extends-modified-its-input", wit)
    res.seen(canon_hash([whole, name, excludes]), depth >= 1 or exp_kind != "ok")


# ---------------------------------------------------------------------------
# (b)+(c) groups
# ---------------------------------------------------------------------------
def run_groups(case, res):
    from pams.runners.sequential import SequentialRunner

    cfg = copy.deepcopy(case["config"])
    exp = case["expect"]
    runner = SequentialRunner(settings=cfg, prng=random.Random(case["seed"]))
    err = None
    try:
        with warnings.catch_warnings():
            warnings.simplefilter("ignore")
            runner._setup()
    except Exception as e:  # noqa
        err = e
    wit = {"config": case["config"], "expect": exp}
    if exp["invalid"] is not None:
        if err is None:
            res.violation("groups", "invalid-count-range-combination-accepted", wit)
        elif isinstance(err, ValueError):
            res.count("groups/invalid_refused")
        else:
            res.count("groups/invalid_refused_with_" + type(err).__name__)
        res.seen(canon_hash(case["config"]), True)
        return
    if err is not None:
        res.violation("groups", "count-or-range-group-refused-or-miscounted", dict(wit, exc=repr(err)))
        return
    sim = runner.simulator
    nontrivial = False
    for kind, groups, members, ents, idattr in (
        ("markets", exp["markets"], sim.markets_group_name2market, sim.markets, "market_id"),
        ("agents", exp["agents"], sim.agents_group_name2agent, sim.agents, "agent_id"),
    ):
        total = sum(g[1] for g in groups)
        ids = [getattr(e, idattr) for e in ents]
        names = [e.name for e in ents]
        if len(ents) != total or ids != list(range(total)):
            res.violation("groups", "count-or-range-group-refused-or-miscounted",
                          dict(wit, what=kind, ids=ids, expected_total=total))
            return
        if len(set(names)) != len(names):
            res.violation("groups", "entity-names-not-unique", dict(wit, names=names))
            return
        pos = 0
        for g in groups:
            gname, n, cls = g[0], g[1], g[2]
            got = members.get(gname, [])
            if len(got) != n or [getattr(e, idattr) for e in got] != list(range(pos, pos + n)):
                res.violation("groups", "count-or-range-group-refused-or-miscounted",
                              dict(wit, group=gname, got=[e.name for e in got], expected_n=n))
                return
            pos += n
            if cls == "range":
                res.count("groups/range_len_1" if n == 1 else "groups/range_len_2" if n == 2 else "groups/range_len>=3")
            elif cls == "inherited-count":
                res.count("groups/count_inherited_from_listed_group")
            elif cls == "count":
                res.count("groups/count")
                if n == 0:
                    res.count("groups/count_0")
            nontrivial = nontrivial or n >= 2
    # (c) accessible markets = union of the listed groups
    for gname, n, cls, listed in exp["agents"]:
        want = set()
        for mg in listed:
            want |= {m.market_id for m in sim.markets_group_name2market.get(mg, [])}
        for a in sim.agents_group_name2agent.get(gname, []):
            res.count("access/checked_agents")
            got = {m.market_id for m in sim.markets if a.is_market_accessible(m.market_id)}
            if got != want:
                res.violation("access", "accessible-markets-differ-from-union-of-listed-groups",
                              dict(wit, agent=a.name, observed=sorted(got), expected=sorted(want)))
                return
    res.seen(canon_hash(case["config"]), nontrivial)


# ---------------------------------------------------------------------------
# (d) JsonRandom
# ---------------------------------------------------------------------------
def run_random(case, res):
    from pams.utils.json_random import JsonRandom

    jr = JsonRandom(prng=random.Random(case["seed"]))
    N = 1500
    for spec, kind, par in case["specs"]:
        wit = {"spec": spec, "kind": kind}
        if kind == "malformed":
            try:
                v = jr.random(copy.deepcopy(spec))
            except ValueError:
                res.count("random/malformed_refused")
            except Exception as e:  # noqa
                res.count("random/malformed_refused_with_" + type(e).__name__)
            else:
                res.violation("random", "malformed-distribution-specification-accepted", dict(wit, value=v))
            continue
        try:
            vals = [jr.random(copy.deepcopy(spec)) for _ in range(N)]
        except Exception as e:  # noqa
            res.violation("random", "valid-distribution-specification-refused", dict(wit, exc=repr(e)))
            continue
        res.count("random/values", N)
        if any(not isinstance(v, float) or math.isnan(v) or math.isinf(v) for v in vals):
            res.violation("random", "random-value-not-a-finite-float", wit)
            continue
        mean = math.fsum(vals) / N
        if kind == "plain":
            if any(v != float(spec) for v in vals):
                res.violation("random", "plain-number-not-returned-as-is", wit)
        elif kind == "const":
            if any(v != float(par[0]) for v in vals):
                res.violation("random", "const-value-differs", dict(wit, got=vals[:3]))
        elif kind == "uniform":
            lo, hi = min(par), max(par)
            if any(v < lo or v > hi for v in vals):
                res.violation("random", "uniform-value-outside-support", dict(wit, min=min(vals), max=max(vals)))
            else:
                sd = (hi - lo) / math.sqrt(12)
                if sd > 0 and abs(mean - (lo + hi) / 2) > 6.5 * sd / math.sqrt(N) + 1e-12 * max(abs(lo), abs(hi)):
                    res.violation("random", "uniform-mean-off", dict(wit, mean=mean))
                if hi > lo and len(set(vals)) < 10 and hi - lo > 1e-6:
                    res.violation("random", "uniform-values-not-random", wit)
        elif kind == "expon":
            lam = par[0]
            if any(v < 0 for v in vals):
                res.violation("random", "exponential-value-negative", wit)
            elif abs(mean - lam) > 6.5 * lam / math.sqrt(N):
                res.violation("random", "exponential-mean-off", dict(wit, mean=mean, expected=lam))
        elif kind == "normal":
            mu, s = par
            if abs(mean - mu) > 6.5 * s / math.sqrt(N) + 1e-12 * abs(mu):
                res.violation("random", "normal-mean-off", dict(wit, mean=mean))
            if s > 0:
                var = math.fsum((v - mean) ** 2 for v in vals) / (N - 1)
                if abs(var - s * s) > 6.5 * s * s * math.sqrt(2.0 / (N - 1)):
                    res.violation("random", "normal-deviation-off", dict(wit, var=var))
            elif any(v != mu for v in vals):
                res.violation("random", "normal-with-zero-sigma-not-constant", wit)
    res.seen(canon_hash(case["specs"]), any(k in ("uniform", "normal", "expon", "malformed") for _, k, _ in case["specs"]))


# ---------------------------------------------------------------------------
# (e) find_class
# ---------------------------------------------------------------------------
def where_defined(name):
    import pams
    import pams.agents
    import pams.events
    import pams.logs
    import pams.utils
    import pams.runners

    for mod in (pams, pams.agents, pams.events, pams.logs, pams.utils, pams.runners):
        if hasattr(mod, name):
            return getattr(mod, name)
    return None


def run_class(case, res):
    from pams.utils.class_finder import find_class

    for name in case["names"]:
        exp = where_defined(name)
        try:
            got = find_class(name)
        except Exception as e:  # noqa
            res.violation("class", "built-in-class-name-not-resolved", {"name": name, "exc": repr(e)})
            continue
        if got is not exp or getattr(got, "__name__", None) != name:
            res.violation("class", "class-name-resolved-to-a-different-class", {"name": name, "got": repr(got)})
        else:
            res.count("class/builtin_resolved")
        # with user classes registered it must still be exactly this class
        u = type(case["user"][0], (), {})
        try:
            if find_class(name, optional_class_list=[u]) is not exp:
                res.violation("class", "class-name-resolved-to-a-different-class", {"name": name, "with_user_classes": True})
        except Exception as e:  # noqa
            res.violation("class", "built-in-class-name-not-resolved", {"name": name, "exc": repr(e), "with_user_classes": True})
    # user classes whose names CONTAIN a built-in name (TrendFCNAgent beside FCNAgent) or each other's name (UnLitMarket
    # beside LitMarket): every name still resolves to exactly the class of that name
    for name in case["names"][:3]:
        exp = where_defined(name)
        rel = [type("Trend" + name, (), {}), type(name + "2", (), {}), type("My" + name + "Plus", (), {})]
        for want, cls_ in [(name, exp)] + [(r.__name__, r) for r in rel]:
            try:
                got = find_class(want, optional_class_list=list(rel))
            except Exception as e:  # noqa
                res.violation("class", "built-in-class-name-not-resolved" if cls_ is exp else "registered-user-class-not-resolved",
                              {"name": want, "exc": repr(e), "registered_beside": [r.__name__ for r in rel]})
                break
            if got is not cls_:
                res.violation("class", "class-name-resolved-to-a-different-class",
                              {"name": want, "got": repr(got), "registered_beside": [r.__name__ for r in rel]})
                break
        else:
            res.count("class/names_containing_one_another_resolved")
    users = [type(n, (), {}) for n in case["user"]]
    for u in users:
        if len({x.__name__ for x in users}) < len(users):
            break
        try:
            got = find_class(u.__name__, optional_class_list=list(users))
        except Exception as e:  # noqa
            res.violation("class", "registered-user-class-not-resolved", {"name": u.__name__, "exc": repr(e)})
            continue
        if got is not u:
            res.violation("class", "class-name-resolved-to-a-different-class", {"name": u.__name__})
        else:
            res.count("class/user_resolved")
    clash = type(case["clash"], (), {})
    try:
        got = find_class(case["clash"], optional_class_list=[clash])
    except Exception:  # noqa
        res.count("class/clash_refused")
    else:
        res.violation("class", "ambiguous-class-name-resolved-silently", {"name": case["clash"], "got": repr(got)})
    if case["two_users_same_name"]:
        a, b = type("Twin", (), {}), type("Twin", (), {})
        try:
            got = find_class("Twin", optional_class_list=[a, b])
        except Exception:  # noqa
            res.count("class/clash_refused")
        else:
            res.violation("class", "ambiguous-class-name-resolved-silently", {"name": "Twin", "got": repr(got)})
    try:
        got = find_class(case["unknown"], optional_class_list=users)
    except Exception:  # noqa
        res.count("class/unknown_refused")
    else:
        res.violation("class", "unknown-class-name-resolved", {"name": case["unknown"], "got": repr(got)})
    runners_in_one_process(case, res)
    res.seen(canon_hash([case["names"], case["user"], case["clash"], case["unknown"]]), True)


def runners_in_one_process(case, res):
    """a parameter sweep: several runners one after the other, each registering its own class under the same name
    (a class factory / a local class per experiment); the last one registers nothing and must be refused."""
    import contextlib
    import io

    from pams.agents import Agent
    from pams.events import EventABC
    from pams.runners.sequential import SequentialRunner

    name_a, name_e = case["user"][0], case["user"][1] + "Event"

    def experiment(k, register=True):
        ag = type(name_a, (Agent,), {"variant": k, "submit_orders": lambda self, markets: []})
        evc = type(name_e, (EventABC,), {"variant": k, "setup": lambda self, settings, *a, **kw: None,
                                         "hook_registration": lambda self: []})
        cfg = {"simulation": {"markets": ["M"], "agents": ["G"],
                              "sessions": [{"sessionName": 0, "iterationSteps": 1, "withOrderPlacement": True,
                                            "withOrderExecution": True, "withPrint": False, "events": ["E"]}]},
               "M": {"class": "Market", "tickSize": 1.0, "marketPrice": 100.0},
               "G": {"class": name_a, "numAgents": 2 + k, "markets": ["M"], "cashAmount": 100, "assetVolume": 1},
               "E": {"class": name_e}}
        r = SequentialRunner(settings=cfg, prng=random.Random(k))
        if register:
            r.class_register(ag)
            r.class_register(evc)
        with contextlib.redirect_stdout(io.StringIO()):
            r._setup()
        return r, ag, evc

    for k in range(3):
        try:
            r, ag, evc = experiment(k)
        except Exception as e:  # noqa
            res.violation("class", "registered-user-class-not-resolved", {"name": name_a, "runner": k, "exc": repr(e)})
            return
        agents = r.simulator.agents
        if len(agents) != 2 + k or any(type(a) is not ag for a in agents):
            res.violation("class", "class-name-resolved-to-a-different-class",
                          {"name": name_a, "runner_in_this_process": k + 1,
                           "variants_built": sorted({getattr(a, "variant", None) for a in agents}), "registered_variant": k})
            return
        res.count("class/own_class_of_a_later_runner_resolved")
    try:
        experiment(9, register=False)
    except Exception:  # noqa
        res.count("class/unknown_refused")
    else:
        res.violation("class", "unknown-class-name-resolved", {"name": name_a, "after_earlier_runners_registered_it": True})


# ---------------------------------------------------------------------------
# (f) legacy keys
# ---------------------------------------------------------------------------
def session_state(settings):
    from pams.session import Session
    from pams.simulator import Simulator

    s = Session(session_id=0, prng=random.Random(1), session_start_time=0, simulator=Simulator(prng=random.Random(2)), name="s")
    with warnings.catch_warnings():
        warnings.simplefilter("ignore")
        s.setup(settings=settings)
    return {k: v for k, v in vars(s).items() if k not in ("prng", "simulator", "logger")}


def run_legacy(case, res):
    base = case["base"]
    new, old = dict(base), dict(base)
    if case["which"] in ("maxHifreqOrders", "both-legacy"):
        new["maxHighFrequencyOrders"] = case["cap"]
        old["maxHifreqOrders"] = case["cap"]
    if case["which"] in ("hifreqSubmitRate", "both-legacy"):
        new["highFrequencySubmitRate"] = case["rate"]
        old["hifreqSubmitRate"] = case["rate"]
    try:
        a = session_state(new)
        b = session_state(old)
    except Exception as e:  # noqa
        res.violation("legacy", "legacy-or-current-key-refused", {"new": new, "old": old, "exc": repr(e)})
        return
    res.count("legacy/pairs_compared")
    if a != b:
        diff = {k: (a.get(k), b.get(k)) for k in set(a) | set(b) if a.get(k) != b.get(k)}
        res.violation("legacy", "legacy-key-sets-different-session-state", {"current": new, "legacy": old, "diff(current,legacy)": diff})
    exp = {}
    if "maxHighFrequencyOrders" in new:
        exp["max_high_frequency_orders"] = case["cap"]
    if "highFrequencySubmitRate" in new:
        exp["high_frequency_submission_rate"] = case["rate"]
    for k, v in exp.items():
        if a.get(k) != v:
            res.violation("legacy", "current-key-does-not-set-its-parameter", {"settings": new, "attribute": k, "got": a.get(k)})
    if case["both"]:
        both = dict(new)
        both.update({k: v for k, v in old.items() if k not in base})
        try:
            session_state(both)
        except ValueError:
            res.count("legacy/both_spellings_refused")
        except Exception as e:  # noqa
            res.count("legacy/both_spellings_refused_with_" + type(e).__name__)
        else:
            res.count("legacy/both_spellings_accepted(no claim)")
    res.seen(canon_hash([base, case["which"], case["cap"], case["rate"]]), True)
    if case.get("sessions"):
        legacy_session_list(case, res)


def legacy_session_list(case, res):
    """the same session list with the chosen spellings and with the current spellings only, set up by the runner: every
    session object holds the configured value (or the documented default) of both parameters, in both runs."""
    import contextlib
    import io

    from pams.runners.sequential import SequentialRunner

    def build(spelling):
        ss = []
        for i, d in enumerate(case["sessions"]):
            s_ = {"sessionName": i, "iterationSteps": d["steps"], "withOrderPlacement": True, "withOrderExecution": True,
                  "withPrint": False}
            if d["cap"] is not None:
                s_["maxHifreqOrders" if (d["cap"] == "legacy" and spelling == "as-chosen") else "maxHighFrequencyOrders"] = d["cap_v"]
            if d["rate"] is not None:
                s_["hifreqSubmitRate" if (d["rate"] == "legacy" and spelling == "as-chosen") else "highFrequencySubmitRate"] = d["rate_v"]
            ss.append(s_)
        return {"simulation": {"markets": ["M"], "agents": ["G"], "sessions": ss},
                "M": {"class": "Market", "tickSize": 1.0, "marketPrice": 100.0},
                "G": {"class": "FCNAgent", "numAgents": 2, "markets": ["M"], "cashAmount": 100, "assetVolume": 1,
                      "fundamentalWeight": 1.0, "chartWeight": 0.0, "noiseWeight": 0.0, "noiseScale": 0.001,
                      "timeWindowSize": 10, "orderMargin": 0.01}}

    got = {}
    for spelling in ("as-chosen", "current-only"):
        cfg = build(spelling)
        r = SequentialRunner(settings=copy.deepcopy(cfg), prng=random.Random(7))
        try:
            with warnings.catch_warnings():
                warnings.simplefilter("ignore")
                with contextlib.redirect_stdout(io.StringIO()):
                    r._setup()
        except Exception as e:  # noqa
            res.violation("legacy", "legacy-or-current-key-refused", {"sessions": cfg["simulation"]["sessions"], "exc": repr(e)})
            return
        got[spelling] = [(x.max_high_frequency_orders, x.high_frequency_submission_rate) for x in r.simulator.sessions]
    res.count("legacy/session_lists_compared")
    if sum(1 for d in case["sessions"] if d["cap"] == "legacy") >= 2 or sum(1 for d in case["sessions"] if d["rate"] == "legacy") >= 2:
        res.count("legacy/same_legacy_key_in_two_sessions_of_one_list")
    exp = [(d["cap_v"] if d["cap"] is not None else 1, d["rate_v"] if d["rate"] is not None else 1.0) for d in case["sessions"]]
    for spelling, g in got.items():
        if g != exp:
            res.violation("legacy", "legacy-key-sets-different-session-state" if spelling == "as-chosen" else
                          "current-key-does-not-set-its-parameter",
                          {"sessions": build(spelling)["simulation"]["sessions"], "per_session(cap,rate)": g, "expected": exp})
            return


def run_case(case, res):
    from .. import bootstrap

    bootstrap.init()
    {"extends": run_extends, "groups": run_groups, "random": run_random, "class": run_class, "legacy": run_legacy}[case["kind"]](case, res)
