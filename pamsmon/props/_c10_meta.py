RULE = (
    "runner drive as for C04/C05 with a Logger subclass recording write / bulk_write / "
    "write_and_direct_process / process_* calls. Ground truth = records returned by the markets to the runner "
    "(orders, cancels, fills) and expiries derived from the shadow book at each clock update; the logger's "
    "stream must equal it (exactly once, same order, expiries of one clock update as a set, fields equal to "
    "independently snapshotted values), plus the begin/end nesting automaton and processing deadlines. Case = "
    "one run; distinct = (seed, counts per record kind); non-trivial = run with fills and cancels or expiries."
)
ASSUMPTIONS = ["simultaneous expiries of one clock update are compared as a set",
               "a record counts as delivered when Logger.write/bulk_write/write_and_direct_process receives it"]
BUDGET = {"quick": 300, "thorough": 40000}
REQUIRED = {
    "quick": {"event_records_matched": 10000, "class/run_with_round_of_2plus_fills": 50,
              "class/expiries_on_both_sides_in_one_clock_update": 30, "class/run_with_2plus_sessions": 50,
              "gt_fills": 2000, "gt_expiries": 500, "gt_cancels": 500, "steps_checked": 2000},
    "thorough": {"event_records_matched": 300000, "class/run_with_round_of_2plus_fills": 1500,
                 "class/expiries_on_both_sides_in_one_clock_update": 800, "class/run_with_2plus_sessions": 1500,
                 "gt_fills": 60000, "gt_expiries": 15000, "gt_cancels": 15000, "steps_checked": 60000},
}


def extra_checks(case, res, out, mon):
    pass
