RULE = (
    "runner drive as for C04/C05 with a Logger subclass recording write / bulk_write / "
    "write_and_direct_process / process_* calls. Ground truth = records returned by the markets to the runner "
    "(orders, cancels, fills) and expiries derived from the shadow book at each clock update; the logger's "
    "stream must equal it (exactly once, same order, expiries of one clock update as a set, fields equal to "
    "independently snapshotted values), plus the begin/end nesting automaton and processing deadlines. Case = "
    "one run; distinct = (seed, counts per record kind); non-trivial = run with fills and cancels or expiries."
)
ASSUMPTIONS = ["simultaneous expiries of one clock update are compared as a set",
               "a record counts as delivered when Logger.write/bulk_write/write_and_direct_process receives it"]
BUDGET = {"quick": 300, "thorough": 40000}
REQUIRED = {
    "quick": {"event_records_matched": 10000, "class/run_with_round_of_2plus_fills": 50,
              "class/expiries_on_both_sides_in_one_clock_update": 30, "class/run_with_2plus_sessions": 50,
              "gt_fills": 2000, "gt_expiries": 500, "gt_cancels": 500, "steps_checked": 2000,
              "runs_repeated_without_logger": 30,
              "class/crowd_run_with_bulk_expiries_repeated_without_logger": 5},
    "thorough": {"event_records_matched": 300000, "class/run_with_round_of_2plus_fills": 1500,
                 "class/expiries_on_both_sides_in_one_clock_update": 800, "class/run_with_2plus_sessions": 1500,
                 "gt_fills": 60000, "gt_expiries": 15000, "gt_cancels": 15000, "steps_checked": 60000,
                 "runs_repeated_without_logger": 900,
                 "class/crowd_run_with_bulk_expiries_repeated_without_logger": 300},
}


def extra_checks(case, res, out, mon):
    """nothing but the records depends on the logger: the same run without one trades identically."""
    if case["seed"] % 4:
        return
    from ..runnerdrive import run_runner_case

    out2 = run_runner_case(case, [], with_logger=False)
    res.count("runs_repeated_without_logger")
    if case.get("crowd"):
        res.count("class/crowd_run_with_bulk_expiries_repeated_without_logger")
    a = [(l.market_id, l.time, l.buy_order_id, l.sell_order_id, l.price, l.volume) for l in out.fills]
    b = [(l.market_id, l.time, l.buy_order_id, l.sell_order_id, l.price, l.volume) for l in out2.fills]
    if out2.error is not None or a != b:
        res.violation("logger-independent", "run-without-a-logger-differs-from-run-with-one",
                      {"error": repr(out2.error), "fills_with": len(a), "fills_without": len(b)})
