"""C06 - one lock-step clock; no access to the future; recorded history never changes."""
from .. import taps
from ..core import canon_hash
from ..runnerdrive import add_builtin_events, gen_program, run_runner_case

RULE = (
    "runner drive: 1-5 sessions whose lengths land on and around 100/200/300 total steps (storage and "
    "generation chunks), 1-4 markets incl. index markets, scripted trading, fundamental shocks and parameter "
    "changes performed 'now' by probe events. At every step record and probe hook all markets must read the "
    "same time; the clock must go 0,1,2,... with index markets stepped last; sessions must span exactly their "
    "steps; every getter (scalar and list form) is called with now+1 and must refuse; all eight series of every "
    "market are snapshotted at each step end and compared after the clock update and at the next step end. "
    "Case = one run; distinct = (seed, session lengths, #markets); non-trivial = run with >=2 sessions, an index "
    "market or a shock."
)
ASSUMPTIONS = [
    "'refused' = the getter raises (any exception) instead of returning a value",
    "history = the Market-level series named in the statement; the current slot may still change within its step",
]
REQUIRED = {
    "quick": {"steps": 3000, "future_queries_refused": 30000, "history_slots_compared": 200000,
              "class/run_crossing_2_chunk_boundaries": 4, "class/run_with_index_market": 5,
              "class/run_with_shock": 8, "class/run_with_parameter_change": 4, "hook_time_checks": 200},
    "thorough": {"steps": 60000, "future_queries_refused": 600000, "history_slots_compared": 5000000,
                 "class/run_crossing_2_chunk_boundaries": 80, "class/run_with_index_market": 150,
                 "class/run_with_shock": 150, "class/run_with_parameter_change": 80, "hook_time_checks": 5000},
}
SERIES = ["get_market_prices", "get_mid_prices", "get_last_executed_prices", "get_fundamental_prices",
          "get_executed_volumes", "get_executed_total_prices", "get_n_buy_orders", "get_n_sell_orders"]
SCALARS = ["get_market_price", "get_mid_price", "get_last_executed_price", "get_fundamental_price",
           "get_executed_volume", "get_executed_total_price", "get_n_buy_order", "get_n_sell_order", "get_vwap"]
INDEX_SCALARS = ["get_index", "get_market_index", "get_fundamental_index", "compute_market_index",
                 "compute_fundamental_index"]


def budget(tier):
    return 64 if tier == "quick" else 4800


def gen_case(rng, tier, idx):
    n_spot = rng.choice([1, 2, 2, 3])
    cfg = {"simulation": {"markets": [], "agents": [], "sessions": []}}
    for i in range(n_spot):
        tick = rng.choice([1.0, 0.5, 0.1])
        cfg["S%d" % i] = {"class": "Market", "tickSize": tick, "marketPrice": rng.choice([100, 400]) * tick,
                          "outstandingShares": rng.choice([1000, 4000]),
                          "fundamentalVolatility": rng.choice([0.0, 0.001, 0.01]),
                          "fundamentalDrift": rng.choice([0.0, 0.0002])}
        cfg["simulation"]["markets"].append("S%d" % i)
    with_index = n_spot >= 2 and rng.random() < 0.5
    if with_index:
        # declared in the middle of the list on purpose: the clock must still step it last
        cfg["IDX"] = {"class": "IndexMarket", "tickSize": 0.5, "markets": ["S0", "S1"], "outstandingShares": 1000,
                      "marketPrice": 100.0}
        pos = rng.choice([2, len(cfg["simulation"]["markets"])])
        cfg["simulation"]["markets"].insert(pos, "IDX")
    mk = list(cfg["simulation"]["markets"])
    prog = gen_program(rng, "mixed")
    cfg["A"] = {"class": "ScriptAgent", "numAgents": rng.randint(2, 5), "markets": mk, "cashAmount": 100000,
                "assetVolume": 50, "program": prog}
    cfg["simulation"]["agents"].append("A")
    if rng.random() < 0.4:
        cfg["H"] = {"class": "ScriptHFTAgent", "numAgents": 2, "markets": mk, "cashAmount": 100000,
                    "assetVolume": 50, "program": gen_program(rng, "mixed")}
        cfg["simulation"]["agents"].append("H")
    # session lengths: land on / around the chunk boundaries
    r = rng.random()
    if r < 0.35:
        total = rng.choice([99, 100, 101, 199, 200, 201, 250, 300, 301])
    elif r < 0.6:
        total = rng.randint(3, 60)
    else:
        total = rng.randint(90, 330)
    ns = rng.choice([1, 2, 3, 5])
    cuts = sorted(rng.sample(range(1, total), min(ns - 1, total - 1))) if total > 1 else []
    lens = [b - a for a, b in zip([0] + cuts, cuts + [total])]
    for i, st in enumerate(lens):
        pl, ex = rng.choice([(True, True), (True, True), (True, False), (False, False)])
        cfg["simulation"]["sessions"].append({
            "sessionName": i, "iterationSteps": st, "withOrderPlacement": pl, "withOrderExecution": ex,
            "withPrint": False, "maxNormalOrders": rng.choice([1, 2, 3]), "maxHighFrequencyOrders": 1})
    if rng.random() < 0.12:
        # a session with zero steps is a valid configuration: it begins and ends at the same time
        pos = rng.randrange(len(cfg["simulation"]["sessions"]) + 1)
        cfg["simulation"]["sessions"].insert(pos, {"sessionName": "empty", "iterationSteps": 0, "withOrderPlacement": True,
                                                   "withOrderExecution": True, "withPrint": False})
        res_zero = True
    add_builtin_events(rng, cfg, which=["FundamentalPriceShock", "FundamentalPriceShock", "OrderMistakeShock"], p_each=0.6)
    # a probe event that observes hooks and performs parameter changes "now"
    changes = []
    for _ in range(rng.choice([0, 0, 1, 2, 3])):
        changes.append({"time": rng.randrange(total), "at_market": "S0", "market": rng.choice([m for m in mk if m != "IDX"]),
                        "what": rng.choice(["volatility", "drift", "shock"]),
                        "value": None})
        ch = changes[-1]
        ch["value"] = {"volatility": rng.choice([0.0, 0.005, 0.02]), "drift": rng.choice([0.0, 0.001, -0.001]),
                       "shock": rng.choice([0.8, 1.1, 1.5])}[ch["what"]]
        if ch["what"] != "shock" and rng.random() < 0.4:
            # the setters' effective time defaults to 0: the generator's own path is rewritten from the start,
            # what the markets have recorded must not be
            ch["default_time"] = True
            if rng.random() < 0.7:
                later = rng.randrange(ch["time"], total)
                changes.append({"time": later, "at_market": "S0", "market": ch["market"], "what": "shock",
                                "value": rng.choice([0.8, 1.2])})
    cfg["PROBE"] = {"class": "ProbeEvent", "fundChanges": changes, "hooks": [
        {"type": "market", "before": True, "time": None}, {"type": "market", "before": False, "time": None},
        {"type": "session", "before": True, "time": None}, {"type": "session", "before": False, "time": None},
        {"type": "order", "before": False, "time": None}]}
    cfg["simulation"]["sessions"][0].setdefault("events", []).append("PROBE")
    return {"drive": "runner", "seed": rng.randrange(1 << 31), "config": cfg, "profile": "clock", "total": total}


def sample_of(case):
    return {"seed": case["seed"], "total_steps": case["total"], "markets": case["config"]["simulation"]["markets"],
            "sessions": [(s["iterationSteps"], s["withOrderPlacement"], s["withOrderExecution"], s.get("events"))
                         for s in case["config"]["simulation"]["sessions"]],
            "fundChanges": case["config"]["PROBE"]["fundChanges"]}


class C06Monitor:
    def __init__(self, res, case):
        self.res = res
        self.case = case
        self.sim = None
        self.now = None
        self.in_update = False
        self.update_order = []
        self.snap = None            # {market_id: [series lists]} taken at the last step end
        self.snap_time = None
        self.sess_steps = {}
        self.first_step_time = None
        self.expected_start = 0
        self.cur_sess = None
        self.future_checked_at = None
        self.stop = False
        self.shocks = 0
        self.param_changes = 0

    def v(self, clause, mech, detail):
        if not self.stop:
            self.res.violation(clause, mech, detail)

    def same_time(self, where):
        ts = [m.get_time() for m in self.sim.markets]
        if len(set(ts)) > 1:
            self.v("lock-step", "markets-disagree-about-the-time", {"where": where, "times": ts})
            return None
        return ts[0]

    # ---- future guard ----------------------------------------------------------
    def future_guard(self):
        res = self.res
        for m in self.sim.markets:
            now = m.get_time()
            names = list(SCALARS)
            if hasattr(m, "get_index"):
                names += INDEX_SCALARS
            for name in names:
                f = getattr(m, name, None)
                if f is None:
                    continue
                try:
                    val = f(now + 1)
                except Exception:  # noqa
                    res.count("future_queries_refused")
                    continue
                self.v("no-future", "query-for-a-future-time-answered:" + name,
                       {"market": m.market_id, "now": now, "asked": now + 1, "answer": val})
            for name in SERIES:
                f = getattr(m, name)
                for times in ([now + 1], range(max(0, now - 1), now + 2), [0, now + 3],
                              range(now + 2, max(now - 2, -1), -1), (now + 1,), [0, now + 1, 0],
                              range(now + 1, -1, -1)):
                    try:
                        val = f(times)
                    except Exception:  # noqa
                        res.count("future_queries_refused")
                        continue
                    self.v("no-future", "query-for-a-future-time-answered:" + name,
                           {"market": m.market_id, "now": now, "asked": list(times), "answer": val})

    # ---- history ------------------------------------------------------------------
    def take(self):
        out = {}
        for m in self.sim.markets:
            out[m.market_id] = [list(getattr(m, name)()) for name in SERIES]
        return out

    def compare_history(self, upto, where):
        """all slots <= upto must equal the snapshot taken at the last step end."""
        if self.snap is None:
            return
        res = self.res
        cur = self.take()
        for mid, series in self.snap.items():
            for name, old, new in zip(SERIES, series, cur[mid]):
                n = min(upto + 1, len(old))
                res.count("history_slots_compared", n)
                if len(new) < n:
                    self.v("history", "recorded-history-shrank:" + name, {"market": mid, "where": where})
                    return
                for t in range(n):
                    a, b = old[t], new[t]
                    if a != b and not (a != a and b != b):
                        self.v("history", "recorded-value-for-a-past-time-changed:" + name.replace("get_", "").rstrip("s"),
                               {"market": mid, "time": t, "now": self.sim.markets[0].get_time(), "was": a, "is": b,
                                "where": where})
                        return

    def index_history(self, t):
        """index markets record nothing of their own for the index: the value for a past time is computed on demand
        from the components' records, so it is asked again later (time 0, the middle, a rotating time)."""
        hist = self.__dict__.setdefault("idx_hist", {})
        for m in self.sim.markets:
            for name in (INDEX_SCALARS if hasattr(m, "get_index") else []) + ["get_vwap"]:
                f = getattr(m, name, None)
                if f is None:
                    continue
                h = hist.setdefault((m.market_id, name), {})
                for past in sorted({0, t // 2, (t * 5 + 1) % (t + 1)} - {t}):
                    if past in h:
                        self.res.count("index_history_slots_compared")
                        try:
                            now_v = f(past)
                        except Exception as e:  # noqa
                            self.v("history", "query-for-a-past-time-refused:" + name, {"time": past, "now": t, "exc": repr(e)})
                            return
                        if now_v != h[past] and not (now_v != now_v and h[past] != h[past]):
                            self.v("history", "recorded-value-for-a-past-time-changed:" + name.replace("get_", ""),
                                   {"market": m.market_id, "time": past, "now": t, "was": h[past], "is": now_v})
                            return
                try:
                    # what the step ended with: the answer without a time argument (= now), which must also be the
                    # answer for this time whenever it is asked for explicitly, now or later
                    h[t] = f()
                    now_explicit = f(t)
                    if now_explicit != h[t] and not (now_explicit != now_explicit and h[t] != h[t]):
                        self.v("history", "recorded-value-for-a-past-time-changed:" + name.replace("get_", ""),
                               {"market": m.market_id, "time": t, "now": t, "answer_without_time": h[t],
                                "answer_for_this_time": now_explicit, "where": "end of the step itself"})
                        return
                except Exception:  # noqa
                    pass

    # ---- sink ---------------------------------------------------------------------
    def on_event(self, ev):
        if self.stop:
            return
        k = ev["k"]
        res = self.res
        if k == "runner_setup_ret":
            self.sim = ev["runner"].simulator
            ts = [m.get_time() for m in self.sim.markets]
            if any(t != -1 for t in ts):
                res.count("clock_not_minus_one_before_start")
        elif k == "times_call":
            self.in_update = True
            self.update_order = []
            self.before = [m.get_time() for m in self.sim.markets]
        elif k == "time_call" and self.in_update:
            self.update_order.append(ev["mkt"])
        elif k == "times_ret":
            self.in_update = False
            after = [m.get_time() for m in self.sim.markets]
            if any(a != b + 1 for a, b in zip(after, self.before)) or len(set(after)) != 1:
                self.v("advance", "clock-did-not-advance-by-exactly-one-for-every-market",
                       {"before": self.before, "after": after})
                self.stop = True
                return
            pos = {id(m): i for i, m in enumerate(self.update_order)}
            for m in self.update_order:
                if hasattr(m, "get_components"):
                    late = [c.name for c in m.get_components() if pos.get(id(c), -1) > pos[id(m)]]
                    if late:
                        self.v("index-last", "index-market-stepped-before-a-component-market",
                               {"order": [x.name for x in self.update_order], "index": m.name, "components_after": late})
                        break
            if sorted(id(m) for m in self.update_order) != sorted(id(m) for m in self.sim.markets):
                self.v("advance", "not-every-market-stepped-exactly-once-in-a-clock-update",
                       {"order": [x.name for x in self.update_order]})
            if self.now is None:
                if after[0] != 0:
                    self.v("advance", "clock-does-not-read-zero-in-the-first-step", {"after": after})
                self.now = after[0]
            else:
                self.now = after[0]
                self.compare_history(self.now - 1, "after-clock-update")
        elif k == "log_write":
            n = type(ev["log"]).__name__
            if n == "SessionBeginLog":
                s = ev["log"].session
                self.cur_sess = s.session_id
                self.sess_steps[s.session_id] = []
                t = self.same_time("session-begin")
                if t is not None and (t != self.expected_start or s.session_start_time != self.expected_start):
                    self.v("sessions", "session-does-not-start-where-the-previous-one-ended",
                           {"session": s.session_id, "clock": t, "session_start_time": s.session_start_time,
                            "expected": self.expected_start})
            elif n == "SessionEndLog":
                s = ev["log"].session
                cfg = self.case["config"]["simulation"]["sessions"][s.session_id]
                times = self.sess_steps.get(s.session_id, [])
                exp = list(range(self.expected_start, self.expected_start + cfg["iterationSteps"]))
                if sorted(set(times)) != exp:
                    self.v("sessions", "session-does-not-span-exactly-its-configured-steps",
                           {"session": s.session_id, "configured_steps": cfg["iterationSteps"],
                            "step_times": sorted(set(times))[:5] + ["..."] + sorted(set(times))[-3:], "expected_first": exp[:1],
                            "expected_last": exp[-1:]})
                self.expected_start += cfg["iterationSteps"]
            elif n == "MarketStepBeginLog":
                t = self.same_time("step-begin")
                if t is None:
                    return
                res.count("time_checks")
                self.sess_steps.setdefault(self.cur_sess, []).append(t)
                if self.future_checked_at != t:
                    self.future_checked_at = t
                    res.count("steps")
                    self.future_guard()
                    # a reader in the middle of the step (before its orders): the current time asked for explicitly
                    for m_ in self.sim.markets:
                        for name_ in (INDEX_SCALARS if hasattr(m_, "get_index") else []) + ["get_vwap"]:
                            try:
                                getattr(m_, name_)(t)
                                res.count("explicit_queries_for_the_current_time_before_the_steps_orders")
                            except Exception:  # noqa
                                pass
            elif n == "MarketStepEndLog":
                t = self.same_time("step-end")
                if t is None:
                    return
                res.count("time_checks")
                if ev["log"].market is self.sim.markets[-1]:
                    # last observation of this step: history so far must be what it was, then re-snapshot
                    self.compare_history(t - 1, "at-next-step-end")
                    self.snap = self.take()
                    self.snap_time = t
                    self.index_history(t)
        elif k == "hook":
            if "mtimes" in ev:
                res.count("hook_time_checks")
                if len(set(ev["mtimes"])) > 1:
                    self.v("lock-step", "markets-disagree-about-the-time", {"where": "hook:" + ev["what"], "times": ev["mtimes"]})
        elif k == "fund_change_ret":
            if ev["change"]["what"] == "shock":
                self.shocks += 1
            else:
                self.param_changes += 1
        elif k == "trig_call" and ev["what"] == "before_step_for_market":
            pass


def run_case(case, res):
    taps.install()
    mon = C06Monitor(res, case)
    out = run_runner_case(case, [mon.on_event])
    if out.error is not None:
        res.count("runner_case_aborted:" + type(out.error).__name__)
        res.inconc("valid clock workload aborted: %r %s" % (out.error, (out.tb or "")[-500:]))
        return
    cfg = case["config"]
    total = case["total"]
    if total > 200:
        res.count("class/run_crossing_2_chunk_boundaries")
    elif total > 100:
        res.count("class/run_crossing_1_chunk_boundary")
    if "IDX" in cfg:
        res.count("class/run_with_index_market")
    n_shock = mon.shocks + sum(1 for k, v in cfg.items() if isinstance(v, dict) and v.get("class") == "FundamentalPriceShock"
                               and v.get("enabled", True))
    if n_shock:
        res.count("class/run_with_shock")
    if mon.param_changes:
        res.count("class/run_with_parameter_change")
    end = [m.get_time() for m in out.simulator.markets]
    if any(t != total for t in end):
        res.violation("sessions", "clock-at-the-end-is-not-the-sum-of-session-steps", {"end": end, "total": total})
    res.seen(canon_hash([case["seed"], [s["iterationSteps"] for s in cfg["simulation"]["sessions"]]]),
             len(cfg["simulation"]["sessions"]) >= 2 or "IDX" in cfg or n_shock > 0)
