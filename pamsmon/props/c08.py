"""C08 - market price, quotes and step statistics are what book and fills imply."""
import math

from .. import taps
from ..core import canon_hash
from ..direct import DirectRun, gen_deep_cancel_history, gen_history
from ..tracker import BookTracker

RULE = (
    "direct drive with the running flag toggled mid-history, market orders at the top of the book, emptied "
    "sides, expiry-only steps; runner drive for session switches (placement-only -> execution) and trading "
    "halts. After every boundary return (acceptance, cancel, matching round, clock update) every public getter "
    "is compared with a reference state machine fed by the observed events only. Case = one comparison point; "
    "distinct = hash(reference state, event kind); non-trivial = the event changed the book or the clock."
)
ASSUMPTIONS = [
    "the running flag is an input to the model (read from Market.is_running at each event), not predicted",
    "float tolerance rel 1e-9 on turnover sums and VWAP, identity on prices taken from orders/fills",
]
REQUIRED = {
    "quick": {"comparisons": 20000, "class/first_event_of_execution_after_non_execution": 20,
              "class/emptied_side": 200, "class/market_order_at_top": 200, "class/step_without_event": 200,
              "class/event_while_not_running": 500, "class/runner_comparisons": 2000, "class/halted_market_events": 1,
              "class/compared_across_storage_chunk": 40},
    "thorough": {"comparisons": 500000, "class/first_event_of_execution_after_non_execution": 500,
                 "class/emptied_side": 5000, "class/market_order_at_top": 5000, "class/step_without_event": 5000,
                 "class/event_while_not_running": 10000, "class/runner_comparisons": 50000,
                 "class/halted_market_events": 20, "class/compared_across_storage_chunk": 1000},
}


def budget(tier):
    return 1200 if tier == "quick" else 60000


def gen_case(rng, tier, idx):
    if idx % 12 == 3:
        # long histories: the clock passes the 100-step storage chunks while orders rest, trade and expire
        c = gen_history(rng, tier, {"long_lived": True, "ttl_menu": [None, 3, 40, 99, 100, 150], "max_levels": 3})
        c["drive"] = "direct"
        return c
    if idx % 12 == 8:
        from ..direct import gen_deep_auction_history

        c = gen_deep_auction_history(rng, tier)
        c["drive"] = "direct"
        return c
    if idx % 12 in (1, 7, 10):
        c = gen_deep_cancel_history(rng, tier)
        c["drive"] = "direct"
        return c
    if idx % 6 == 5:
        from ..runnerdrive import gen_runner_case

        c = gen_runner_case(rng, tier, profile="matching")
        if rng.random() < 0.5:
            add_halt_rule(rng, c)
        return c
    prof = {}
    if rng.random() < 0.5:
        prof["mode"] = rng.choice(["mixed", "batch"])
    c = gen_history(rng, tier, prof)
    c["drive"] = "direct"
    return c


def add_halt_rule(rng, case):
    cfg = case["config"]
    spots = [n for n in cfg["simulation"]["markets"] if cfg[n]["class"] != "IndexMarket"]
    cfg["HALT"] = {"class": "TradingHaltRule", "targetMarkets": [rng.choice(spots)],
                   "triggerChangeRate": rng.choice([0.002, 0.005, 0.01]), "haltingTimeLength": rng.choice([1, 2, 4])}
    ss = [s for s in cfg["simulation"]["sessions"] if s["withOrderExecution"] and s["withOrderPlacement"]]
    if ss:
        ss[0].setdefault("events", []).append("HALT")


def sample_of(case):
    if case.get("drive") == "direct":
        return {"drive": "direct", "tick": case["tick"], "mode": case["mode"], "ops": case["ops"][:25]}
    return {"drive": "runner", "seed": case.get("seed"), "sessions": case["config"]["simulation"]["sessions"]}


def feq(a, b, rel=1e-9):
    if a is None or b is None:
        return a is b
    if isinstance(a, float) and a != a:
        return isinstance(b, float) and b != b
    if isinstance(b, float) and b != b:
        return False
    return a == b or abs(a - b) <= rel * max(abs(a), abs(b))


class Ref:
    """reference series of one market, index = time."""

    def __init__(self):
        self.t = -1
        self.mp = []
        self.mid = []
        self.last = []
        self.vol = []
        self.turn = []
        self.nb = []
        self.ns = []
        self.ever_traded = False


class C08Monitor(BookTracker):
    def __init__(self, res, drive):
        super().__init__()
        self.res = res
        self.drive = drive
        self.refs = {}
        self.events_in_step = {}
        self.was_running = {}
        self.dead = set()

    def ref(self, mkt):
        return self.refs.setdefault(mkt.market_id, Ref())

    def running_of(self, ev):
        """is the market running at this event? In a run without a halt rule that is what the CONFIGURATION says about
        the current session (a session without execution = not running), not the flag the market carries; with a halt
        rule, and in the direct drive, the flag is an input of the model."""
        cur = getattr(self, "cur_session_exec", None)
        if self.drive == "runner" and getattr(self, "no_halt_rule", False) and cur is not None:
            if cur != bool(ev["running"]):
                self.res.count("class/running_flag_differs_from_configured_session_switch")
            return cur
        return ev["running"]

    # -- model transitions ------------------------------------------------------
    def refresh(self, ref, book, running):
        bb, bs = book.best_price(True), book.best_price(False)
        ref.mid[ref.t] = (bs + bb) / 2.0 if (bb is not None and bs is not None) else None
        if running:
            if ref.last[ref.t] is not None:
                ref.mp[ref.t] = ref.last[ref.t]
            elif ref.mid[ref.t] is not None:
                ref.mp[ref.t] = ref.mid[ref.t]

    def on_clock(self, ev, book, expired):
        mkt = ev["mkt"]
        ref = self.ref(mkt)
        t = ev["time"]
        running = self.running_of(ev)
        if ref.t == -1:
            # first clock update: the configured initial market price is read once, here
            ref.t = t
            for s in (ref.mid, ref.last):
                s.extend([None] * (t + 1))
            ref.mp.extend([None] * t + [mkt.get_market_price()])
            for s in (ref.vol, ref.nb, ref.ns):
                s.extend([0] * (t + 1))
            ref.turn.extend([0.0] * (t + 1))
        else:
            if t != ref.t + 1:
                self.res.count("clock_did_not_advance_by_one(see C06)")
                self.dead.add(mkt.market_id)
                return
            if not self.events_in_step.get(mkt.market_id):
                self.res.count("class/step_without_event")
            ref.t = t
            ref.last.append(ref.last[t - 1])
            ref.mid.append(ref.mid[t - 1])
            mp = ref.mp[t - 1]
            if running:
                if ref.last[t - 1] is not None:
                    mp = ref.last[t - 1]
                elif ref.mid[t - 1] is not None:
                    mp = ref.mid[t - 1]
            ref.mp.append(mp)
            ref.vol.append(0)
            ref.turn.append(0.0)
            ref.nb.append(0)
            ref.ns.append(0)
        self.events_in_step[mkt.market_id] = 0
        self.compare(mkt, book, ref, "clock", full=True)

    def _note(self, mkt, running):
        mid = mkt.market_id
        self.events_in_step[mid] = self.events_in_step.get(mid, 0) + 1
        if not running:
            self.res.count("class/event_while_not_running")
            if getattr(mkt.simulator, "current_session", None) is not None and \
                    getattr(self, "session_exec_at_start", {}).get(mkt.simulator.current_session.session_id):
                self.res.count("class/halted_market_events")
        prev = self.was_running.get(mid)
        if running and prev is False:
            self.res.count("class/first_event_of_execution_after_non_execution")
        self.was_running[mid] = running

    def on_accept(self, ev, book, so):
        mkt = ev["mkt"]
        if mkt.market_id in self.dead:
            return
        ref = self.ref(mkt)
        if ref.t < 0:
            return
        self._note(mkt, self.running_of(ev))
        if so.is_buy:
            ref.nb[ref.t] += 1
        else:
            ref.ns[ref.t] += 1
        self.refresh(ref, book, self.running_of(ev))
        self.compare(mkt, book, ref, "accept")

    def on_cancel(self, ev, book, so):
        mkt = ev["mkt"]
        if mkt.market_id in self.dead:
            return
        ref = self.ref(mkt)
        if ref.t < 0:
            return
        self._note(mkt, self.running_of(ev))
        self.refresh(ref, book, self.running_of(ev))
        self.compare(mkt, book, ref, "cancel")

    def on_round(self, ev, book, pre, fills):
        mkt = ev["mkt"]
        if mkt.market_id in self.dead:
            return
        ref = self.ref(mkt)
        if ref.t < 0:
            return
        if fills:
            self._note(mkt, self.running_of(ev))
            for log, _, _ in fills:
                ref.last[ref.t] = log.price
                ref.vol[ref.t] += log.volume
                ref.turn[ref.t] += log.volume * log.price
                ref.ever_traded = True
            self.refresh(ref, book, self.running_of(ev))
        self.compare(mkt, book, ref, "round" if fills else "empty-round")

    def on_round_exc(self, ev, book, pre):
        if not ev["running"]:
            # refused by design; the book and all statistics must read as before
            self.res.count("round_refused_while_not_running")
            return
        self.res.count("round_raised(see C03/C16)")
        self.dead.add(ev["mkt"].market_id)

    def on_other(self, ev):
        if ev["k"] == "refused_ret":
            mkt = ev["mkt"]
            if mkt.market_id not in self.dead and mkt.market_id in self.books:
                ref = self.ref(mkt)
                if ref.t >= 0:
                    self.compare(mkt, self.book(mkt), ref, "after-refused-request")
        elif ev["k"] == "running_set":
            pass
        elif ev["k"] == "log_write" and type(ev["log"]).__name__ == "SessionBeginLog":
            s = ev["log"].session
            self.__dict__.setdefault("session_exec_at_start", {})[s.session_id] = s.with_order_execution
            sc = getattr(self, "sess_cfg", None)
            if sc is not None and isinstance(s.session_id, int) and 0 <= s.session_id < len(sc):
                self.cur_session_exec = bool(sc[s.session_id]["withOrderExecution"])

    # -- comparison with the public getters -----------------------------------
    def compare(self, mkt, book, ref, where, full=False):
        res = self.res
        res.count("comparisons")
        if self.drive == "runner":
            res.count("class/runner_comparisons")
        t = ref.t
        bad = []

        def chk(name, got, exp, tol=False):
            ok = feq(got, exp) if tol else (got == exp or (got is None and exp is None))
            if not ok:
                bad.append({"getter": name, "observed": got, "expected": exp})

        try:
            chk("get_time", mkt.get_time(), t)
            chk("get_market_price", mkt.get_market_price(), ref.mp[t], tol=True)
            chk("get_mid_price", mkt.get_mid_price(), ref.mid[t], tol=True)
            chk("get_last_executed_price", mkt.get_last_executed_price(), ref.last[t])
            ebb, ebs = book.best_price(True), book.best_price(False)
            chk("get_best_buy_price", mkt.get_best_buy_price(), ebb)
            chk("get_best_sell_price", mkt.get_best_sell_price(), ebs)
            chk("get_buy_order_book", list(mkt.get_buy_order_book().items()), book.depth(True))
            chk("get_sell_order_book", list(mkt.get_sell_order_book().items()), book.depth(False))
            chk("get_executed_volume", mkt.get_executed_volume(), ref.vol[t])
            chk("get_executed_total_price", mkt.get_executed_total_price(), ref.turn[t], tol=True)
            chk("get_n_buy_order", mkt.get_n_buy_order(), ref.nb[t])
            chk("get_n_sell_order", mkt.get_n_sell_order(), ref.ns[t])
            sv = sum(ref.vol[: t + 1])
            evwap = (sum(ref.turn[: t + 1]) / sv) if sv else float("nan")
            chk("get_vwap", mkt.get_vwap(), evwap, tol=True)
            if t >= 1:
                tt = t - 1 if t < 3 or (self.n_events % 3) else max(0, t - 2 - (self.n_events % 5))
                svp = sum(ref.vol[: tt + 1])
                chk("get_vwap(past)", mkt.get_vwap(tt), (sum(ref.turn[: tt + 1]) / svp) if svp else float("nan"), tol=True)
            if full:
                # series form, all times up to now
                chk("get_market_prices", mkt.get_market_prices(), ref.mp[: t + 1])
                chk("get_mid_prices", mkt.get_mid_prices(), ref.mid[: t + 1])
                chk("get_last_executed_prices", mkt.get_last_executed_prices(), ref.last[: t + 1])
                chk("get_executed_volumes", mkt.get_executed_volumes(), ref.vol[: t + 1])
                got = mkt.get_executed_total_prices()
                if len(got) != t + 1 or any(not feq(a, b) for a, b in zip(got, ref.turn[: t + 1])):
                    bad.append({"getter": "get_executed_total_prices", "observed": got[-5:], "expected": ref.turn[max(0, t - 4): t + 1]})
                chk("get_n_buy_orders", mkt.get_n_buy_orders(), ref.nb[: t + 1])
                chk("get_n_sell_orders", mkt.get_n_sell_orders(), ref.ns[: t + 1])
                if t >= 1:
                    tt = max(0, t - 1)
                    sv = sum(ref.vol[: tt + 1])
                    chk("get_vwap(t-1)", mkt.get_vwap(tt), (sum(ref.turn[: tt + 1]) / sv) if sv else float("nan"), tol=True)
                # scalar getters with an explicit time argument: now, the previous step, time 0 and a chunk boundary
                for tq in sorted({t, max(0, t - 1), 0, (t // 100) * 100, max(0, (t // 100) * 100 - 1)}):
                    chk("get_market_price(time)", mkt.get_market_price(tq), ref.mp[tq], tol=True)
                    chk("get_mid_price(time)", mkt.get_mid_price(tq), ref.mid[tq], tol=True)
                    chk("get_last_executed_price(time)", mkt.get_last_executed_price(tq), ref.last[tq])
                    chk("get_executed_volume(time)", mkt.get_executed_volume(tq), ref.vol[tq])
                    chk("get_executed_total_price(time)", mkt.get_executed_total_price(tq), ref.turn[tq], tol=True)
                    chk("get_n_buy_order(time)", mkt.get_n_buy_order(tq), ref.nb[tq])
                    chk("get_n_sell_order(time)", mkt.get_n_sell_order(tq), ref.ns[tq])
                    chk("list-form(time)", mkt.get_market_prices([tq, t]), [ref.mp[tq], ref.mp[t]])
                # list-form getters with other valid forms of the time argument: descending down to step 0,
                # strided, tuples
                chk("get_executed_volumes(desc)", mkt.get_executed_volumes(range(t, -1, -1)), ref.vol[: t + 1][::-1])
                chk("get_market_prices(desc)", mkt.get_market_prices(range(t, -1, -1)), ref.mp[: t + 1][::-1])
                chk("get_n_buy_orders(stride)", mkt.get_n_buy_orders(range(0, t + 1, 2)), ref.nb[: t + 1][::2])
                chk("get_last_executed_prices(tuple)", mkt.get_last_executed_prices(tuple(range(max(0, t - 3), t + 1))),
                    ref.last[max(0, t - 3): t + 1])
                chk("get_mid_prices(desc-stride)", mkt.get_mid_prices(range(t, -1, -3)), ref.mid[: t + 1][::-1][::3])
                if t in (100, 101, 200, 201):
                    res.count("class/compared_across_storage_chunk")
        except Exception as e:  # noqa
            bad.append({"getter": "(raised)", "observed": repr(e), "expected": "a value"})
        if not book.live or not book.side(True) or not book.side(False):
            res.count("class/emptied_side")
        bb, bs = book.best(True), book.best(False)
        if (bb is not None and bb.is_market) or (bs is not None and bs.is_market):
            res.count("class/market_order_at_top")
        if bad:
            for b in bad[:3]:
                series = b["getter"].rstrip("s") if b["getter"].endswith("s") and b["getter"] != "get_vwap" else b["getter"]
                res.violation(
                    "getter", "getter-disagrees-with-book-and-fills:" + series,
                    {"where": where, "time": t, "running": mkt.is_running, "mismatch": b,
                     "ever_traded": ref.ever_traded,
                     "book_buy": [so.brief() for so in book.side(True)][:8],
                     "book_sell": [so.brief() for so in book.side(False)][:8]},
                )
            self.dead.add(mkt.market_id)  # one report per divergence; the model cannot resynchronise
        res.seen(
            canon_hash([where, ref.mp[t], ref.mid[t], ref.last[t], ref.vol[t], book.depth(True)[:3], book.depth(False)[:3],
                        mkt.is_running]),
            where != "empty-round",
        )


def run_case(case, res):
    taps.install()
    if case.get("drive") == "runner":
        from ..runnerdrive import run_runner_case

        mon = C08Monitor(res, "runner")
        mon.sess_cfg = case["config"]["simulation"]["sessions"]
        mon.no_halt_rule = not any(isinstance(v, dict) and "TradingHaltRule" in str(v.get("class", ""))
                                   for v in case["config"].values())
        out = run_runner_case(case, [mon.on_event])
        if out.error is not None:
            res.count("runner_case_aborted:" + type(out.error).__name__)
        return
    run = DirectRun(case)
    mon = C08Monitor(res, "direct")
    taps.add_sink(mon.on_event)
    try:
        run.run(on_op_exc=lambda i, op, e: res.count("op_raised:" + type(e).__name__) or "stop")
    finally:
        taps.remove_sink(mon.on_event)
