"""C16 - trading halt rule: no fills on a stopped market; halt and resume on schedule."""
from fractions import Fraction

from .. import taps
from ..core import canon_hash
from ..direct import DirectRun, gen_history
from ..runnerdrive import run_runner_case

RULE = (
    "runner drive with 'pusher' scripted agents that walk the price through the moving halt line, halting "
    "lengths 1-8, rates 0.005-0.05, halts near session ends, several halts per run, single-target and "
    "multi-target rules, one rule per market, disabled rules; direct drive: forced matching rounds on crossed, "
    "not-running markets. A halt state machine (halts so far k, halt time h) is driven by the rounds observed "
    "on target markets with p0 = get_market_price(0) read when the round returns (1e-9 relative skip band "
    "around the line); is_running is read at every step-begin record. Case = one run; distinct = (seed, rule "
    "table); non-trivial = run with at least one halt."
    ' Since the seeded rounds: a large-move profile (rates 0.25..1.5, quotes at 0.3..4.2 x the time-0 price) in which the line passes +100%, rules set up twice, forced rounds and refused requests in the direct histories; two rule objects on one market (a tiered breaker, or one rule listed under two sessions), each with its own count, asked in set-up order; every 11th run has no logger (observation point: first consultation of an agent in each step).'
)
ASSUMPTIONS = [
    "halts so far are counted per rule (a multi-target rule shares the count)",
    "rounds whose deviation lies within 1e-9 (relative) of the line are not judged; the model resynchronises on them",
]
REQUIRED = {
    "quick": {"halts": 150, "class/run_with_2plus_halts": 20, "class/halt_cut_by_session_end": 10,
              "class/acceptance_during_halt": 300, "class/resumed_on_schedule": 80, "running_flag_checks": 5000,
              "rounds_on_targets_judged": 2000, "class/forced_round_on_stopped_market": 30,
              "class/line_not_crossed_rounds": 1000, "class/exactly_on_the_line_decidable": 3,
              "class/price_beyond_plus_100pct_below_the_line": 5, "class/run_with_two_rule_objects_on_one_market": 20,
              "class/halt_of_a_market_that_a_second_rule_object_also_targets": 60,
              "class/step_of_a_run_without_a_logger_checked": 150},
    "thorough": {"halts": 5000, "class/run_with_2plus_halts": 600, "class/halt_cut_by_session_end": 300,
                 "class/acceptance_during_halt": 9000, "class/resumed_on_schedule": 2500,
                 "running_flag_checks": 150000, "rounds_on_targets_judged": 60000,
                 "class/forced_round_on_stopped_market": 900, "class/line_not_crossed_rounds": 30000, "class/exactly_on_the_line_decidable": 90,
                 "class/price_beyond_plus_100pct_below_the_line": 150,
                 "class/run_with_two_rule_objects_on_one_market": 500,
                 "class/halt_of_a_market_that_a_second_rule_object_also_targets": 1500,
                 "class/step_of_a_run_without_a_logger_checked": 4000},
}


def budget(tier):
    return 220 if tier == "quick" else 60000


def gen_case(rng, tier, idx):
    if idx % 11 == 10:
        c = gen_history(rng, tier, {"mode": "batch", "p_market": rng.choice([0.0, 0.2])})
        c["drive"] = "direct"
        c["force"] = True
        return c
    n = rng.choice([1, 2, 2, 3])
    cfg = {"simulation": {"markets": [], "agents": [], "sessions": []}}
    for i in range(n):
        tick = rng.choice([1.0, 0.5, 0.1])
        cfg["S%d" % i] = {"class": "Market", "tickSize": tick, "marketPrice": rng.choice([200, 500]) * tick,
                          "outstandingShares": 1000}
        cfg["simulation"]["markets"].append("S%d" % i)
    if n >= 2 and rng.random() < 0.25:
        # an index market that can itself be a halt target
        cfg["IDX"] = {"class": "IndexMarket", "tickSize": 0.5, "markets": ["S0", "S1"], "outstandingShares": 1000,
                      "marketPrice": (cfg["S0"]["marketPrice"] + cfg["S1"]["marketPrice"]) / 2}
        cfg["simulation"]["markets"].append("IDX")
    mk = list(cfg["simulation"]["markets"])
    rules = []
    style = rng.choice(["single", "single", "multi", "per-market"])
    if style == "single":
        rules.append([rng.choice(mk)])
    elif style == "multi":
        rules.append(rng.sample(mk, rng.randint(1, len(mk))))
    else:
        rules = [[m] for m in mk]
    for j, tg in enumerate(rules):
        cfg["HALT%d" % j] = {"class": "TradingHaltRule", "targetMarkets": tg,
                             "triggerChangeRate": rng.choice([0.0, 0.005, 0.01, 0.02, 0.05, 0.0078125, 0.015625, 0.03125]),
                             "haltingTimeLength": rng.choice([0, 1, 2, 3, 5, 8])}
        if rng.random() < 0.08:
            cfg["HALT%d" % j]["enabled"] = False
    # pushers: quote around the current price with a bias, so that the price walks
    for g in range(rng.choice([1, 2])):
        bias = rng.choice([-2, 0, 0, 2])
        acts = [
            [6, {"a": "limit", "side": "any", "off": [-4 + bias, 4 + bias], "vol": [1, 4], "ttl": [None, 3, 8]}],
            [2, {"a": "limit", "side": "any", "ref": "p0", "mult": [0.9, 0.97, 0.99, 1.01, 1.03, 1.1], "vol": [1, 3],
                 "ttl": [2, 5]}],
            [1, {"a": "market", "side": "any", "vol": [1, 3], "ttl": [None, 2]}],
            [1, {"a": "cancel", "which": "any"}],
        ]
        cfg["A%d" % g] = {"class": "ScriptAgent", "numAgents": rng.randint(2, 5), "markets": mk, "cashAmount": 100000,
                          "assetVolume": 50, "program": {"p_act": 0.9, "max_batch": rng.choice([1, 2]), "actions": acts}}
        cfg["simulation"]["agents"].append("A%d" % g)
    if rng.random() < 0.4:
        cfg["H"] = {"class": "ScriptHFTAgent", "numAgents": 2, "markets": mk, "cashAmount": 100000, "assetVolume": 50,
                    "program": {"p_act": 0.8, "max_batch": 1, "actions": [
                        [1, {"a": "limit", "side": "any", "off": [-3, 3], "vol": [1, 2], "ttl": [2]}]]}}
        cfg["simulation"]["agents"].append("H")
    ns = rng.choice([1, 2, 3])
    for i in range(ns):
        pl, ex = rng.choice([(True, True), (True, True), (True, True), (True, False)])
        cfg["simulation"]["sessions"].append({"sessionName": i, "iterationSteps": rng.choice([6, 12, 25, 40]),
                                              "withOrderPlacement": pl, "withOrderExecution": ex, "withPrint": False,
                                              "maxNormalOrders": rng.choice([2, 4]), "maxHighFrequencyOrders": 1})
    if not any(s["withOrderExecution"] for s in cfg["simulation"]["sessions"]):
        cfg["simulation"]["sessions"][0]["withOrderExecution"] = True
    for j in range(len(rules)):
        rng.choice(cfg["simulation"]["sessions"]).setdefault("events", []).append("HALT%d" % j)
    if rng.random() < 0.3:
        # exactly decidable line: dyadic rate, power-of-two reference price, power-of-two tick
        for j in range(len(rules)):
            cfg["HALT%d" % j]["triggerChangeRate"] = rng.choice([0.0078125, 0.015625, 0.03125])
        for m in mk:
            cfg[m]["tickSize"] = rng.choice([1.0, 0.5])
            cfg[m]["marketPrice"] = rng.choice([128.0, 256.0, 512.0])
    if rng.random() < 0.15:
        # large moves: the line is a large fraction (or a multiple) of the time-0 price and the price runs far above
        # it, so that several halts pile up and the line passes +100 %
        for j in range(len(rules)):
            cfg["HALT%d" % j]["triggerChangeRate"] = rng.choice([0.25, 0.5, 0.5, 1.0, 1.5, 0.3, 0.7])
            cfg["HALT%d" % j]["haltingTimeLength"] = rng.choice([0, 1, 2])
        far = [0.3, 0.6, 1.2, 1.4, 1.6, 1.9, 2.0, 2.1, 2.3, 2.4, 2.6, 2.9, 3.1, 3.6, 4.2]
        for k, v in cfg.items():
            if isinstance(v, dict) and "program" in v:
                v["program"]["actions"].append([8, {"a": "limit", "side": "any", "ref": "p0", "mult": far,
                                                    "vol": [1, 3], "ttl": [2, 5]}])
        for s_ in cfg["simulation"]["sessions"]:
            s_["iterationSteps"] = max(s_["iterationSteps"], 25)
    if idx % 11 in (2, 8):
        # tiered breaker: two rule objects share target markets - a narrow line with a long halt and a wide line with a
        # short halt (or no halt length at all); only the rule that halted a market may resume it
        for k in [k for k in cfg if k.startswith("HALT")]:
            for s_ in cfg["simulation"]["sessions"]:
                if k in s_.get("events", []):
                    s_["events"].remove(k)
            del cfg[k]
        tg = rng.sample(mk, rng.randint(1, len(mk)))
        r0 = rng.choice([0.0, 0.005, 0.01, 0.0078125])
        cfg["HALT0"] = {"class": "TradingHaltRule", "targetMarkets": tg, "triggerChangeRate": r0,
                        "haltingTimeLength": rng.choice([3, 5, 8])}
        tg1 = list(tg) if rng.random() < 0.6 else rng.sample(mk, rng.randint(1, len(mk)))
        if not set(tg1) & set(tg):
            tg1.append(tg[0])
        cfg["HALT1"] = {"class": "TradingHaltRule", "targetMarkets": tg1,
                        "triggerChangeRate": max(r0, 0.005) * rng.choice([4.0, 8.0, 16.0]),
                        "haltingTimeLength": rng.choice([0, 1, 2])}
        for name in rng.sample(["HALT0", "HALT1"], 2):
            rng.choice(cfg["simulation"]["sessions"]).setdefault("events", []).append(name)
        # lines that can be decided exactly (dyadic rates, power-of-two time-0 prices and ticks): with two rule objects a
        # round on a line that cannot be decided from outside ends the judging of the run
        r0 = rng.choice([0.0, 0.0078125, 0.015625, 0.00390625])
        cfg["HALT0"]["triggerChangeRate"] = r0
        cfg["HALT1"]["triggerChangeRate"] = max(r0, 0.0078125) * rng.choice([4.0, 8.0])
        for m_ in mk:
            cfg[m_]["tickSize"] = rng.choice([1.0, 0.5])
            cfg[m_]["marketPrice"] = rng.choice([128.0, 256.0, 512.0])
    if idx % 11 == 6 and ns >= 2:
        # the same rule listed under two sessions: two rule objects with the same settings, each with its own count
        halts = [k for k in cfg if k.startswith("HALT")]
        name = halts[0]
        for k in halts:
            if cfg[k]["triggerChangeRate"] not in (0.0, 0.0078125, 0.015625, 0.03125, 0.25, 0.5, 1.0, 1.5):
                cfg[k]["triggerChangeRate"] = rng.choice([0.0078125, 0.015625, 0.03125])
        for m_ in mk:
            cfg[m_]["tickSize"] = rng.choice([1.0, 0.5])
            cfg[m_]["marketPrice"] = rng.choice([128.0, 256.0, 512.0])
        for s_ in cfg["simulation"]["sessions"]:
            if name not in s_.get("events", []):
                s_.setdefault("events", []).append(name)
                break
    if idx % 11 == 9 and len(mk) >= 2:
        # a long run: one rule over all markets with a line that every fill reaches and a short halt; the markets start
        # at the same price on the same grid, so that the same prices come back on other markets a hundred and more
        # steps later (pams keeps its series in blocks of 100 steps)
        for k in [k for k in cfg if k.startswith("HALT")]:
            for s_ in cfg["simulation"]["sessions"]:
                if k in s_.get("events", []):
                    s_["events"].remove(k)
            del cfg[k]
        for m_ in mk:
            cfg[m_]["tickSize"] = 1.0
            cfg[m_]["marketPrice"] = 256.0
        cfg["HALT0"] = {"class": "TradingHaltRule", "targetMarkets": list(mk), "triggerChangeRate": 0.0,
                        "haltingTimeLength": rng.choice([0, 1])}
        ss = cfg["simulation"]["sessions"]
        del ss[1:]
        ss[0].update({"iterationSteps": rng.choice([230, 260]), "withOrderPlacement": True, "withOrderExecution": True,
                      "events": ["HALT0"]})
    if idx % 11 == 4 and len(mk) >= 2:
        # relay: ONE rule over all markets with a line that almost any fill crosses and a long halt; a halt that is
        # cut short by the end of the first session is followed, early in the next session, by a halt of another
        # target (in either declaration order of the markets)
        for k in [k for k in cfg if k.startswith("HALT")]:
            for s_ in cfg["simulation"]["sessions"]:
                if k in s_.get("events", []):
                    s_["events"].remove(k)
            del cfg[k]
        cfg["HALT0"] = {"class": "TradingHaltRule", "targetMarkets": rng.sample(mk, len(mk)),
                        "triggerChangeRate": rng.choice([0.0, 0.0, 0.002]), "haltingTimeLength": rng.choice([5, 8])}
        ss = cfg["simulation"]["sessions"]
        del ss[2:]
        while len(ss) < 2:
            ss.append(dict(ss[0], sessionName=len(ss)))
        ss[0].update({"iterationSteps": rng.choice([4, 7, 9]), "withOrderPlacement": True, "withOrderExecution": True})
        ss[1].update({"iterationSteps": rng.choice([20, 30]), "withOrderPlacement": True, "withOrderExecution": True})
        for s_ in ss:
            s_.pop("events", None)
        ss[0]["events"] = ["HALT0"]
        if rng.random() < 0.5:
            # (an index market has to stay behind its components)
            ms = cfg["simulation"]["markets"]
            spots_ = [m_ for m_ in ms if cfg[m_]["class"] != "IndexMarket"]
            cfg["simulation"]["markets"] = spots_[::-1] + [m_ for m_ in ms if cfg[m_]["class"] == "IndexMarket"]
    from ..runnerdrive import add_first_attempts, split_extra_targets

    split_extra_targets(rng, cfg, 0.15)
    add_first_attempts(rng, cfg, 0.15)
    # every 11th run is made without a logger (optional argument left out): the rule must not depend on one
    return {"drive": "runner", "seed": rng.randrange(1 << 31), "config": cfg, "profile": "halt", "no_logger": idx % 11 == 1}


def sample_of(case):
    if case.get("drive") == "direct":
        return {"drive": "direct", "ops": case["ops"][:20]}
    cfg = case["config"]
    return {"seed": case["seed"], "markets": cfg["simulation"]["markets"],
            "rules": {k: v for k, v in cfg.items() if isinstance(v, dict) and v.get("class") == "TradingHaltRule"},
            "sessions": [(s["iterationSteps"], s["withOrderPlacement"], s["withOrderExecution"], s.get("events"))
                         for s in cfg["simulation"]["sessions"]]}


class C16Monitor:
    def __init__(self, res, case):
        self.res = res
        self.case = case
        cfg = case["config"]
        self.sess_cfg = cfg["simulation"]["sessions"]
        # one rule object per listing under a session, in the order in which the runner sets them up (that is the
        # order in which they are asked after a fill); each has its own count of halts
        self.rules = []
        for s_ in self.sess_cfg:
            for name in s_.get("events", []):
                e = cfg.get(name)
                if isinstance(e, dict) and e.get("class") == "TradingHaltRule" and e.get("enabled", True):
                    self.rules.append({"name": name, "targets": list(e["targetMarkets"]) + list(e.get("extraTargets", [])),
                                       "rate": e["triggerChangeRate"], "L": e["haltingTimeLength"], "k": 0})
        self.shared = {t for r in self.rules for t in r["targets"] if sum(1 for q in self.rules if t in q["targets"]) >= 2}
        if self.shared:
            res.count("class/run_with_two_rule_objects_on_one_market")
        self.halted = {}        # market name -> {"h":, "sess":, "rule":}
        self.unsure = {}        # market name -> (time, rule) of a round that landed on the line
        self.sim = None
        self.sess = None
        self.n_halts = 0
        self.dead = False
        self.pre_running = {}
        self.resumed = set()
        self.pending = None
        self.no_logger = bool(case.get("no_logger"))
        self.last_step_seen = None

    def rule_of(self, name):
        return [r for r in self.rules if name in r["targets"]]

    def v(self, clause, mech, detail):
        if not self.dead:
            self.res.violation(clause, mech, detail)
            self.dead = True

    def session_begin(self, sid):
        res = self.res
        self.sess = sid
        self.resumed.clear()
        for name, h in list(self.halted.items()):
            res.count("class/halt_cut_by_session_end")
            del self.halted[name]
        self.unsure.clear()

    def step_begin(self, m):
        res = self.res
        t = m.get_time()
        cfg = self.sess_cfg[self.sess]
        h = self.halted.get(m.name)
        exp = cfg["withOrderExecution"]
        why = "session flag"
        if h is not None:
            L = h["rule"]["L"]
            if t <= h["h"] + L:
                exp = False
                why = "halt at %d for %d steps" % (h["h"], L)
            else:
                exp = True
                why = "resumption due at %d" % (h["h"] + L + 1)
                if t == h["h"] + L + 1:
                    res.count("class/resumed_on_schedule")
                del self.halted[m.name]
                self.resumed.add(m.name)
        res.count("running_flag_checks")
        if m.is_running != exp:
            if exp:
                mech = "market-still-stopped-after-halt-length" if "resumption" in why else \
                    "market-stopped-without-halt-line-crossed"
            else:
                mech = "market-running-during-halt" if "halt at" in why else "market-running-in-non-execution-session"
            if mech == "market-running-in-non-execution-session":
                res.count("running_flag_set_in_non_execution_session(no claim)")
                return
            self.v("schedule", mech, {"market": m.name, "time": t, "is_running": m.is_running, "expected": exp,
                                      "because": why, "logger": not self.no_logger,
                                      "halted": {k_: {"h": v_["h"]} for k_, v_ in self.halted.items()}})

    def on_event(self, ev):
        if self.dead:
            return
        k = ev["k"]
        res = self.res
        if self.unsure and (k in ("add_call", "cancel_call", "consult_call", "times_call") or (
                k == "log_write" and type(ev["log"]).__name__ != "ExecutionLog")):
            # a round landed on the line (within 1e-9): adopt the decision the rule took, observed after its hooks ran
            for name, (t_edge, rule) in list(self.unsure.items()):
                m = self.sim.name2market[name]
                if not m.is_running:
                    self.halted[name] = {"h": t_edge, "sess": self.sess, "rule": rule}
                    rule["k"] += 1
                    self.n_halts += 1
                    res.count("halts_on_the_line_adopted")
            self.unsure.clear()
        if k == "runner_setup_ret":
            self.sim = ev["runner"].simulator
        elif k == "log_write":
            n = type(ev["log"]).__name__
            if n == "SessionBeginLog":
                self.session_begin(ev["log"].session.session_id)
            elif n == "MarketStepBeginLog":
                self.step_begin(ev["log"].market)
        elif k == "consult_call" and self.no_logger:
            # a run without a logger: the first consultation of an agent in a step is the observation point (the
            # before-step hooks have run, nothing has been matched yet)
            cs = self.sim.current_session
            if cs is not None and cs.session_id != self.sess:
                self.session_begin(cs.session_id)
            if ev["time"] != self.last_step_seen:
                self.last_step_seen = ev["time"]
                for m in self.sim.markets:
                    self.step_begin(m)
                    if self.dead:
                        return
                res.count("class/step_of_a_run_without_a_logger_checked")
            if self.pending is not None:
                m, t = self.pending
                self.pending = None
                self.v("resumes", "market-does-not-match-after-resumption",
                       {"market": m.name, "accepted_at": t, "is_running": m.is_running})
        elif k == "exec_call":
            self.pre_running[ev["mkt"].market_id] = ev["running"]
            if self.pending is not None and self.pending[0] is ev["mkt"]:
                self.pending = None
                res.count("rounds_after_resumption_seen")
        elif k == "exec_exc":
            cfg = self.sess_cfg[self.sess] if self.sess is not None else None
            self.v("placeable", "order-or-cancel-during-halt-raised",
                   {"exc": repr(ev["exc"]), "market": ev["mkt"].name, "running": ev["running"],
                    "halted": list(self.halted)})
        elif k in ("add_call", "cancel_call", "consult_call", "times_call"):
            if self.pending is not None:
                m, t = self.pending
                self.pending = None
                self.v("resumes", "market-does-not-match-after-resumption",
                       {"market": m.name, "accepted_at": t, "is_running": m.is_running})
        elif k in ("add_ret", "cancel_ret"):
            if self.halted:
                res.count("class/acceptance_during_halt")
            elif ev["mkt"].name in self.resumed and self.sess_cfg[self.sess]["withOrderExecution"] and not self.unsure \
                    and all(x.is_running for x in self.sim.markets):
                self.pending = (ev["mkt"], ev["time"])
        elif k == "exec_ret":
            logs = ev["logs"]
            if not logs:
                return
            m = ev["mkt"]
            t = ev["time"]
            if not self.pre_running.get(m.market_id, True) or not ev["running"]:
                self.v("no-fill-when-stopped", "fill-on-a-market-that-is-not-running",
                       {"market": m.name, "time": t, "fills": [taps.snap_log(l) for l in logs][:4]})
                return
            if m.name in self.halted:
                h = self.halted[m.name]
                self.v("stays-stopped", "fill-on-target-market-during-its-halt",
                       {"market": m.name, "time": t, "halt_time": h["h"], "length": h["rule"]["L"],
                        "fills": [taps.snap_log(l) for l in logs][:4]})
                return
            for r in self.rule_of(m.name):
                res.count("rounds_on_targets_judged")
                p0 = m.get_market_price(0)
                mp = m.get_market_price()
                dev = abs(p0 - mp)
                thr = abs(p0 * r["rate"] * (r["k"] + 1))
                exact = (Fraction(dev) == abs(Fraction(p0) - Fraction(mp))
                         and Fraction(thr) == abs(Fraction(p0) * Fraction(r["rate"]) * (r["k"] + 1)))
                if exact and dev == thr:
                    res.count("class/exactly_on_the_line_decidable")
                if dev >= thr * (1 + 1e-9) or (exact and dev >= thr):
                    self.halted[m.name] = {"h": t, "sess": self.sess, "rule": r}
                    r["k"] += 1
                    self.n_halts += 1
                    res.count("halts")
                    if m.name in self.shared:
                        res.count("class/halt_of_a_market_that_a_second_rule_object_also_targets")
                    break
                elif dev > thr * (1 - 1e-9) and not exact:
                    res.count("rounds_on_the_line_not_judged")
                    if len(self.rule_of(m.name)) > 1:
                        # several rule objects watch this market and the round landed on the line of one of them: which
                        # object halts (if any) decides the length of the halt and whose count goes up, and that
                        # cannot be told from outside - the rest of this run is not judged (the profiles with several
                        # rule objects use exactly decidable lines, so this stays rare)
                        res.count("runs_not_judged_further:round_on_the_line_of_one_of_several_rule_objects")
                        self.dead = True
                        return
                    self.unsure[m.name] = (t, r)
                    break
                else:
                    res.count("class/line_not_crossed_rounds")
                    if dev >= p0 > 0:
                        res.count("class/price_beyond_plus_100pct_below_the_line")

    def finish(self):
        if self.n_halts >= 2:
            self.res.count("class/run_with_2plus_halts")


def run_case(case, res):
    taps.install()
    if case.get("drive") == "direct":
        # forced rounds on a stopped market must not produce fills
        run = DirectRun(case)

        def sink(ev):
            if ev["k"] == "exec_ret" and ev["logs"] and not ev["running"]:
                res.violation("no-fill-when-stopped", "fill-on-a-market-that-is-not-running",
                              {"fills": [taps.snap_log(l) for l in ev["logs"]][:4]})

        taps.add_sink(sink)
        try:
            run.start()
            for op in case["ops"]:
                try:
                    run.apply(op)
                except Exception as e:  # noqa
                    res.count("op_raised:" + type(e).__name__)
                    break
                m = run.market
                if not m.is_running and op[0] in ("L", "M", "C"):
                    bb, bs = m.get_best_buy_price(), m.get_best_sell_price()
                    crossed = (len(m.buy_order_book) and len(m.sell_order_book)
                               and (bb is None or bs is None or bb >= bs))
                    try:
                        logs = m._execution()
                        if crossed:
                            res.count("class/forced_round_on_stopped_market")
                    except Exception:  # noqa
                        if crossed:
                            res.count("class/forced_round_on_stopped_market")
                            res.count("forced_round_refused_by_exception")
        finally:
            taps.remove_sink(sink)
        res.seen(canon_hash(case["ops"][:30]), True)
        return
    mon = C16Monitor(res, case)
    out = run_runner_case(case, [mon.on_event], with_logger=not case.get("no_logger"))
    if out.error is not None and not mon.dead:
        res.count("runner_case_aborted:" + type(out.error).__name__)
        res.violation("placeable", "valid-halt-workload-aborted", {"exc": repr(out.error), "tb": (out.tb or "")[-600:]})
        return
    mon.finish()
    res.seen(canon_hash([case["seed"], sample_of(case)["rules"]]), mon.n_halts > 0)
