from .. import taps
from ..lifecycle import C10Monitor
from ..runnerdrive import gen_accounting_case, run_runner_case
from ._c10_meta import *  # noqa


def budget(tier):
    return BUDGET[tier]


def gen_case(rng, tier, idx):
    case = gen_accounting_case(rng, tier, hft=(rng.choice([1, 2, 3]) if idx % 2 == 0 else None))
    if idx % 5 == 2:
        # an event that acts on the markets at session boundaries: what it submits or cancels before a session opens
        # / after it closes is written between two boundary records
        cfg = case["config"]
        ss = cfg["simulation"]["sessions"]
        cfg["OPENER"] = {"class": "ProbeEvent", "hooks": [{"type": "session", "before": True, "time": None},
                                                          {"type": "session", "before": False, "time": None}],
                         "sessionActions": {"before": rng.choice([["order"], ["cancel"], ["order", "cancel"]]),
                                            "after": rng.choice([[], ["order"], ["cancel"]]), "ttl": rng.choice([1, 2, 30])}}
        ss[rng.randrange(len(ss))].setdefault("events", []).append("OPENER")
    return case


def sample_of(case):
    return {"drive": "runner", "seed": case["seed"], "sessions": case["config"]["simulation"]["sessions"],
            "markets": case["config"]["simulation"]["markets"],
            "agents": {k: {"n": v.get("numAgents"), "class": v["class"], "program": v.get("program")}
                       for k, v in case["config"].items() if isinstance(v, dict) and "program" in v}}


def run_case(case, res):
    taps.install()
    mon = C10Monitor(res)
    out = run_runner_case(case, [mon.on_event])
    if out.error is not None:
        res.count("runner_case_aborted:" + type(out.error).__name__)
        res.inconc("valid accounting workload aborted: %r" % (out.error,))
        return
    if "10" == "05":
        mon.finish(case)
    else:
        mon.finish(out, case)
    extra_checks(case, res, out, mon)
