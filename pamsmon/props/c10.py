from .. import taps
from ..lifecycle import C10Monitor
from ..runnerdrive import gen_accounting_case, run_runner_case
from ._c10_meta import *  # noqa


def budget(tier):
    return BUDGET[tier]


def gen_crowd_case(rng):
    """a crowd: 40-60 agents that all act in every step with orders of ONE lifetime, so that dozens of orders of one
    side reach the end of their lifetime in the same step (bulk expiry); the run is repeated without a logger."""
    n = rng.choice([40, 50, 60])
    ttl = rng.choice([3, 4, 6])
    tick = rng.choice([1.0, 0.5, 0.1])
    cfg = {"simulation": {"markets": ["S0"], "agents": ["CROWD"], "sessions": [
        {"sessionName": 0, "iterationSteps": rng.choice([30, 45]), "withOrderPlacement": True, "withOrderExecution": True,
         "withPrint": False, "maxNormalOrders": n}]},
        "S0": {"class": "Market", "tickSize": tick, "marketPrice": 500 * tick, "outstandingShares": 1000},
        "CROWD": {"class": "ScriptAgent", "numAgents": n, "markets": ["S0"], "cashAmount": 100000, "assetVolume": 50,
                  "program": {"p_act": 1.0, "max_batch": 1, "actions": [
                      [4, {"a": "limit", "side": "buy", "ref": "p0", "off": [-40, -3], "vol": [1, 2], "ttl": [ttl]}],
                      [4, {"a": "limit", "side": "sell", "ref": "p0", "off": [3, 40], "vol": [1, 2], "ttl": [ttl]}],
                      [2, {"a": "limit", "side": "any", "ref": "p0", "off": [-6, 6], "vol": [1, 3], "ttl": [ttl]}]]}}}
    return {"drive": "runner", "seed": rng.randrange(1 << 29) * 4, "config": cfg, "profile": "accounting", "crowd": True}


def gen_case(rng, tier, idx):
    if idx % 25 == 11:
        return gen_crowd_case(rng)
    case = gen_accounting_case(rng, tier, hft=(rng.choice([1, 2, 3]) if idx % 2 == 0 else None))
    if idx % 5 == 2:
        # an event that acts on the markets at session boundaries: what it submits or cancels before a session opens
        # / after it closes is written between two boundary records
        cfg = case["config"]
        ss = cfg["simulation"]["sessions"]
        cfg["OPENER"] = {"class": "ProbeEvent", "hooks": [{"type": "session", "before": True, "time": None},
                                                          {"type": "session", "before": False, "time": None}],
                         "sessionActions": {"before": rng.choice([["order"], ["cancel"], ["order", "cancel"]]),
                                            "after": rng.choice([[], ["order"], ["cancel"]]), "ttl": rng.choice([1, 2, 30])}}
        ss[rng.randrange(len(ss))].setdefault("events", []).append("OPENER")
    return case


def sample_of(case):
    return {"drive": "runner", "seed": case["seed"], "sessions": case["config"]["simulation"]["sessions"],
            "markets": case["config"]["simulation"]["markets"],
            "agents": {k: {"n": v.get("numAgents"), "class": v["class"], "program": v.get("program")}
                       for k, v in case["config"].items() if isinstance(v, dict) and "program" in v}}


def run_case(case, res):
    taps.install()
    mon = C10Monitor(res)
    out = run_runner_case(case, [mon.on_event])
    if out.error is not None:
        res.count("runner_case_aborted:" + type(out.error).__name__)
        res.inconc("valid accounting workload aborted: %r" % (out.error,))
        return
    if "10" == "05":
        mon.finish(case)
    else:
        mon.finish(out, case)
    extra_checks(case, res, out, mon)
