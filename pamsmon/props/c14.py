"""C14 - shocks hit only their target market, in their window, with their magnitude."""
import math
from fractions import Fraction

from .. import taps
from ..core import canon_hash
from ..fundtrack import FundTracker
from ..runnerdrive import HOOK_TYPES, gen_program, run_runner_case

RULE = (
    "runner drive with 2-4 markets (optionally an index market), fundamental price shocks and order-mistake "
    "shocks placed in any session (offsets 0..last step, windows 1-5 also running past the session end, rates "
    "+-0.01..0.5, disabled instances), scripted agents that do or do not send an order to the target at the "
    "trigger time and that send to other markets first. Fundamental values are read right after the clock "
    "advance and at each market's step-begin and step-end record; every (market, time) must equal the value at "
    "the advance times the product of the shocks due there, and the next value must continue from it with the "
    "generator's own log-return. Every accepted order is compared with the snapshot of what its agent returned. "
    "Case = one run; distinct = (seed, shock table); non-trivial = a shock was due and applied or an order was "
    "replaced."
    ' Since the seeded rounds: other events with always-on hooks of every kind share 40% of the runs (a non-binding price limit rule, a watching probe), built-in events set up twice (refused first attempt, then corrected settings), explicit empty event lists; a zero-volatility market is judged by the closed form when no log-return was observed at the generator.'
)
ASSUMPTIONS = [
    "requested-versus-accepted price equality is up to tick rounding in the non-aggressive direction (C19)",
    "at most one order-mistake shock per (market, trigger time) is configured",
]
REQUIRED = {
    "quick": {"fundamental_points_checked": 15000, "class/shocked_step": 150, "class/unshocked_other_market_step": 5000,
              "class/continuation_after_shock": 100, "class/order_replaced": 40, "class/first_order_went_elsewhere": 12,
              "class/disabled_shock_run": 10, "class/trigger_time_without_target_order": 10,
              "orders_compared_with_request": 5000, "class/shock_window_past_session_end": 5,
              "class/shock_on_last_step_of_a_generation_chunk": 3,
              "class/other_events_with_always_on_hooks_in_the_run": 40},
    "thorough": {"fundamental_points_checked": 400000, "class/shocked_step": 4000,
                 "class/unshocked_other_market_step": 150000, "class/continuation_after_shock": 3000,
                 "class/order_replaced": 1200, "class/first_order_went_elsewhere": 600,
                 "class/disabled_shock_run": 300, "class/trigger_time_without_target_order": 300,
                 "orders_compared_with_request": 150000, "class/shock_window_past_session_end": 150,
                 "class/shock_on_last_step_of_a_generation_chunk": 90,
                 "class/other_events_with_always_on_hooks_in_the_run": 1200},
}


def budget(tier):
    return 240 if tier == "quick" else 72000


def gen_case(rng, tier, idx):
    n_spot = rng.choice([2, 2, 3, 4])
    cfg = {"simulation": {"markets": [], "agents": [], "sessions": []}}
    for i in range(n_spot):
        tick = rng.choice([1.0, 0.5, 0.1, 0.01])
        zero_vol = rng.random() < 0.5
        cfg["S%d" % i] = {"class": "Market", "tickSize": tick, "marketPrice": rng.choice([100, 400, 3000]) * tick,
                          "outstandingShares": 1000,
                          "fundamentalVolatility": 0.0 if zero_vol else rng.choice([0.001, 0.01]),
                          "fundamentalDrift": rng.choice([0.0, 0.001, -0.0005])}
        cfg["simulation"]["markets"].append("S%d" % i)
    spots = list(cfg["simulation"]["markets"])
    vol_spots = [s_ for s_ in spots if cfg[s_]["fundamentalVolatility"] > 0]
    if len(vol_spots) >= 2 and rng.random() < 0.5:
        cfg["simulation"]["fundamentalCorrelations"] = {"pairwise": [[vol_spots[0], vol_spots[1], rng.choice([-0.7, 0.4, 0.9])]]}
    if rng.random() < 0.3:
        cfg["IDX"] = {"class": "IndexMarket", "tickSize": 0.5, "markets": spots[:2], "outstandingShares": 1000,
                      "marketPrice": 100.0}
        cfg["simulation"]["markets"].append("IDX")
    mk = list(cfg["simulation"]["markets"])
    for g in range(rng.choice([1, 2])):
        prog = gen_program(rng, "mixed")
        prog["p_act"] = rng.choice([0.5, 0.9, 1.0])
        prog["max_batch"] = rng.choice([1, 2, 4])
        cfg["A%d" % g] = {"class": "ScriptAgent", "numAgents": rng.randint(1, 4), "markets": mk if rng.random() < 0.7 else rng.sample(mk, 1),
                          "cashAmount": 100000, "assetVolume": 50, "program": prog}
        cfg["simulation"]["agents"].append("A%d" % g)
    if rng.random() < 0.4:
        cfg["H"] = {"class": "ScriptHFTAgent", "numAgents": 2, "markets": mk, "cashAmount": 100000, "assetVolume": 50,
                    "program": gen_program(rng, "mixed")}
        cfg["simulation"]["agents"].append("H")
    ns = rng.choice([1, 2, 3])
    starts = []
    total = 0
    long_run = rng.random() < 0.25
    if long_run:
        # runs that cross the 100-step generation chunks: few quiet agents, long sessions
        for k in list(cfg):
            if isinstance(cfg[k], dict) and "program" in cfg[k]:
                cfg[k]["numAgents"] = 1
                cfg[k]["program"]["p_act"] = 0.3
    for i in range(ns):
        st = rng.choice([3, 6, 12, 20]) if not long_run else rng.choice([60, 100, 101, 130])
        starts.append(total)
        total += st
        pl, ex = rng.choice([(True, True), (True, True), (True, False), (False, False)])
        cfg["simulation"]["sessions"].append({"sessionName": i, "iterationSteps": st, "withOrderPlacement": pl,
                                              "withOrderExecution": ex, "withPrint": False,
                                              "maxNormalOrders": rng.choice([1, 2, 5]), "maxHighFrequencyOrders": 1})
    used = set()
    for j in range(rng.choice([1, 2, 3, 4])):
        si = rng.randrange(ns)
        steps = cfg["simulation"]["sessions"][si]["iterationSteps"]
        name = "SH%d" % j
        if rng.random() < 0.55:
            off = rng.choice([0, steps - 1, rng.randrange(steps)])
            if long_run and rng.random() < 0.7:
                # absolute times on and around the chunk boundaries
                cand = [a - starts[si] for a in (98, 99, 100, 101, 198, 199, 200, 201, 299) if 0 <= a - starts[si] < steps]
                if cand:
                    off = rng.choice(cand)
            e = {"class": "FundamentalPriceShock", "target": rng.choice(spots), "triggerTime": off,
                 "priceChangeRate": rng.choice([-0.5, -0.2, -0.01, 0.0, 0.01, 0.1, 0.5]),
                 "shockTimeLength": rng.choice([0, 1, 1, 2, 3, 5])}
        else:
            off = rng.choice([0, steps - 1, rng.randrange(steps)])
            tgt = rng.choice(mk)
            if (tgt, starts[si] + off) in used:
                continue
            used.add((tgt, starts[si] + off))
            e = {"class": "OrderMistakeShock", "target": tgt, "triggerTime": off,
                 "priceChangeRate": rng.choice([-0.3, -0.05, -0.01, 0.0, 0.01, 0.05, 0.3]),
                 "orderVolume": rng.choice([1, 7, 100]), "orderTimeLength": rng.choice([0, 1, 4, 30])}
        if rng.random() < 0.12:
            e["enabled"] = False
        cfg[name] = e
        cfg["simulation"]["sessions"][si].setdefault("events", []).append(name)
    if rng.random() < 0.4:
        # other events share the run: always-on hooks of every kind next to the shocks' time-listed ones.  The price
        # limit is far too wide to bind (it must not change what the shocks' orders look like).
        si = rng.randrange(ns)
        if rng.random() < 0.6:
            cfg["WIDE"] = {"class": "PriceLimitRule", "targetMarkets": rng.sample(mk, rng.randint(1, len(mk))),
                           "triggerChangeRate": 10.0}
            cfg["simulation"]["sessions"][si].setdefault("events", []).insert(0, "WIDE")
        if rng.random() < 0.6:
            cfg["WATCH"] = {"class": "ProbeEvent", "hooks": [
                {"type": t_, "before": b_, "time": None} for t_, b_ in rng.sample(HOOK_TYPES, rng.randint(2, 6))]}
            evs = cfg["simulation"]["sessions"][rng.randrange(ns)].setdefault("events", [])
            evs.insert(rng.randrange(len(evs) + 1), "WATCH")
    from ..runnerdrive import add_first_attempts

    add_first_attempts(rng, cfg, 0.15)
    return {"drive": "runner", "seed": rng.randrange(1 << 31), "config": cfg, "profile": "shocks", "total": total}


def sample_of(case):
    cfg = case["config"]
    return {"seed": case["seed"], "markets": cfg["simulation"]["markets"],
            "sessions": [(s["iterationSteps"], s["withOrderPlacement"], s["withOrderExecution"], s.get("events"))
                         for s in cfg["simulation"]["sessions"]],
            "shocks": {k: v for k, v in cfg.items() if isinstance(v, dict) and "Shock" in v.get("class", "")}}


def close(a, b, rel=1e-12):
    return a == b or abs(a - b) <= rel * max(abs(a), abs(b))


def price_matches_request(req, acc, tick, is_buy):
    """accepted price equals the requested one up to tick rounding (never more aggressive)."""
    if req is None or acc is None:
        return req is acc
    if req == acc:
        return True
    P, T, A = Fraction(req), Fraction(tick), Fraction(acc)
    slack = Fraction(4 * math.ulp(max(abs(req), tick)))
    if is_buy:
        return A <= P + slack and P - A < T + slack
    return A >= P - slack and A - P < T + slack


class C14Monitor:
    def __init__(self, res, case):
        self.res = res
        self.case = case
        cfg = case["config"]
        self.cfg = cfg
        self.sim = None
        self.ft = FundTracker()
        starts = []
        t = 0
        for s in cfg["simulation"]["sessions"]:
            starts.append(t)
            t += s["iterationSteps"]
        self.fshocks = []   # (target name, first, last+1, rate)
        self.mshocks = []   # dict
        for si, s in enumerate(cfg["simulation"]["sessions"]):
            for name in s.get("events", []):
                e = cfg[name]
                if e.get("enabled", True) is False:
                    self.disabled = True
                    continue
                if e["class"] in ("PriceLimitRule", "ProbeEvent"):
                    res.count("class/other_events_with_always_on_hooks_in_the_run")
                elif e["class"] == "FundamentalPriceShock":
                    a = starts[si] + e["triggerTime"]
                    self.fshocks.append((e["target"], a, a + e.get("shockTimeLength", 1), e["priceChangeRate"]))
                    if a + e.get("shockTimeLength", 1) > starts[si] + s["iterationSteps"]:
                        res.count("class/shock_window_past_session_end")
                elif e["class"] == "OrderMistakeShock":
                    self.mshocks.append({"name": name, "target": e["target"], "time": starts[si] + e["triggerTime"],
                                         "rate": e["priceChangeRate"], "volume": e["orderVolume"],
                                         "ttl": e["orderTimeLength"], "done": False, "seen_other_first": False})
        if any(isinstance(v, dict) and v.get("enabled") is False for v in cfg.values()):
            res.count("class/disabled_shock_run")
        self.adv = {}     # market_id -> value at the clock advance (current time)
        self.end_prev = {}
        self.requests = {}
        self.mistaken = []
        self.expired_seen = set()
        self.applied = 0
        self.replaced = 0
        self.dead = False

    def scale(self, name, t):
        sc = 1.0
        n = 0
        for tgt, a, b, rate in self.fshocks:
            if tgt == name and a <= t < b:
                sc *= (1 + rate)
                n += 1
        return sc, n

    def on_event(self, ev):
        self.ft.on_event(ev)
        if self.dead:
            return
        k = ev["k"]
        res = self.res
        if k == "runner_setup_ret":
            self.sim = ev["runner"].simulator
        elif k == "times_ret":
            for m in self.sim.markets:
                v = m.get_fundamental_price()
                t = m.get_time()
                prev = self.end_prev.get(m.market_id)
                if prev is not None and not hasattr(m, "get_components"):
                    exp = self.ft.expected_next(m.market_id, t - 1, prev)
                    if exp is None:
                        # no log-return was seen at the generator's observation point for this step (an
                        # implementation may produce flat or deterministic stretches without it): a market whose
                        # configured volatility is zero must still follow previous level x exp(drift); a volatile
                        # one cannot be judged here (C12 judges the generator itself)
                        mc = self.cfg[m.name]
                        if mc.get("fundamentalVolatility", 0.0) == 0.0:
                            exp = prev * math.exp(mc.get("fundamentalDrift", 0.0))
                            res.count("continuations_judged_by_closed_form")
                        else:
                            res.count("continuation_not_judged(no log-return observed)")
                    if exp is not None:
                        res.count("continuations_checked")
                        if self.scale(m.name, t - 1)[1]:
                            res.count("class/continuation_after_shock")
                        if not close(v, exp, 1e-11):
                            res.violation(
                                "continues", "fundamental-does-not-continue-from-the-previous-level",
                                {"market": m.name, "time": t, "value": v, "previous_level": prev, "expected": exp,
                                 "previous_step_was_shocked": bool(self.scale(m.name, t - 1)[1])})
                            self.dead = True
                            return
                self.adv[m.market_id] = v
        elif k == "log_write":
            n = type(ev["log"]).__name__
            if n == "ExpirationLog":
                self.expired_seen.add((ev["log"].market_id, ev["log"].order_id))
            if n in ("MarketStepBeginLog", "MarketStepEndLog"):
                m = ev["log"].market
                t = m.get_time()
                v = m.get_fundamental_price()
                base = self.adv.get(m.market_id)
                if base is None:
                    return
                sc, nsh = self.scale(m.name, t)
                res.count("fundamental_points_checked")
                if nsh:
                    res.count("class/shocked_step")
                    self.applied += 1
                    if t % 100 == 99 and n == "MarketStepBeginLog":
                        res.count("class/shock_on_last_step_of_a_generation_chunk")
                elif self.fshocks:
                    res.count("class/unshocked_other_market_step")
                if not close(v, base * sc):
                    res.violation(
                        "target-window-magnitude",
                        "fundamental-not-value-at-advance-times-due-shocks:" + ("shock-due" if nsh else "no-shock-due"),
                        {"market": m.name, "time": t, "at": n, "value_at_advance": base, "value": v,
                         "due_scale": sc, "shocks": self.fshocks})
                    self.dead = True
                    return
                if n == "MarketStepEndLog":
                    self.end_prev[m.market_id] = v
                # the series value must be the same thing
                if m.get_fundamental_prices([t])[0] != v:
                    res.violation("series", "fundamental-series-differs-from-scalar-getter", {"market": m.name, "time": t})
        elif k == "time_ret":
            # the mistaken order lives for its configured lifetime: gone when the clock passes accept + ttl
            for mo in self.mistaken:
                if mo["mkt"] is ev["mkt"] and ev["time"] == mo["accepted"] + mo["ttl"] + 1:
                    o = mo["order"]
                    res.count("mistaken_order_lifetimes_checked")
                    if o.volume > 0 and not o.is_canceled and (ev["mkt"].market_id, mo["oid"]) not in self.expired_seen:
                        res.violation("mistake", "mistaken-order-outlives-its-configured-lifetime",
                                      {"order": taps.snap_order(o), "accepted_at": mo["accepted"], "ttl": mo["ttl"],
                                       "now": ev["time"]})
        elif k == "consult_ret":
            for o, s in zip(ev["orders"], ev["snaps"]):
                if "price" in s:
                    self.requests[id(o)] = (o, s)
        elif k == "add_call":
            self._mp = (ev["order"], ev["mkt"].get_market_price())
        elif k == "add_ret":
            self.check_order(ev)

    def check_order(self, ev):
        res = self.res
        r = self.requests.get(id(ev["order"]))
        if r is None:
            return
        req = r[1]
        log = ev["log"]
        mkt = ev["mkt"]
        t = ev["time"]
        res.count("orders_compared_with_request")
        due = None
        for ms in self.mshocks:
            if ms["time"] == t and not ms["done"]:
                if ms["target"] == mkt.name:
                    due = ms
                    break
                ms["seen_other_first"] = True
        acc = {"is_buy": log.is_buy, "kind": getattr(log.kind, "name", str(log.kind)), "volume": log.volume, "ttl": log.ttl,
               "price": log.price, "agent_id": log.agent_id, "market_id": log.market_id}
        if due is not None:
            due["done"] = True
            self.replaced += 1
            self.mistaken.append({"order": ev["order"], "mkt": mkt, "accepted": t, "ttl": due["ttl"], "oid": log.order_id})
            res.count("class/order_replaced")
            if due["seen_other_first"]:
                res.count("class/first_order_went_elsewhere")
            mp = self._mp[1]
            want_price = mp * (1 + due["rate"])
            ok = (acc["is_buy"] == (due["rate"] > 0.0) and acc["kind"] == "LIMIT_ORDER" and acc["volume"] == due["volume"]
                  and acc["ttl"] == due["ttl"] and price_matches_request(want_price, acc["price"], mkt.tick_size, acc["is_buy"])
                  and acc["agent_id"] == req["agent_id"] and acc["market_id"] == req["market_id"])
            if not ok:
                res.violation("mistake", "order-mistake-replacement-differs-from-configuration",
                              {"shock": due, "accepted": acc, "market_price": mp, "expected_price_before_tick": want_price,
                               "requested": req})
            return
        same = (acc["is_buy"] == req["is_buy"] and acc["kind"] == req["kind"] and acc["volume"] == req["volume"]
                and acc["ttl"] == req["ttl"] and acc["agent_id"] == req["agent_id"] and acc["market_id"] == req["market_id"]
                and price_matches_request(req["price"], acc["price"], mkt.tick_size, acc["is_buy"]))
        if not same:
            at_trigger = [ms for ms in self.mshocks if ms["time"] == t]
            mech = "order-changed-although-no-shock-was-due"
            if at_trigger and all(ms["target"] != mkt.name for ms in at_trigger):
                mech = "order-mistake-replaced-order-of-non-target-market"
            elif at_trigger:
                mech = "order-mistake-replaced-more-than-one-order"
            res.violation("mistake", mech, {"requested": req, "accepted": acc, "time": t, "market": mkt.name,
                                            "shocks": self.mshocks})

    def finish(self):
        res = self.res
        for ms in self.mshocks:
            if not ms["done"]:
                res.count("class/trigger_time_without_target_order")


def run_case(case, res):
    taps.install()
    mon = C14Monitor(res, case)
    out = run_runner_case(case, [mon.on_event])
    if out.error is not None:
        res.count("runner_case_aborted:" + type(out.error).__name__)
        res.inconc("valid shock workload aborted: %r %s" % (out.error, (out.tb or "")[-500:]))
        return
    mon.finish()
    res.seen(canon_hash([case["seed"], sample_of(case)["shocks"]]), mon.applied > 0 or mon.replaced > 0)
