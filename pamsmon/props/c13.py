"""C13 - event hooks fire exactly at their registered occasions, times and markets."""
import collections
from fractions import Fraction

from .. import taps
from ..core import canon_hash
from ..runnerdrive import gen_probe, gen_program, run_runner_case

RULE = (
    "runner drive with 1-6 user-written probe events carrying generated hook tables (all 9 type/position "
    "combinations; time None, [], single, ranges, lists with repeated entries; class filter Market/IndexMarket, "
    "instance filter), 2-4 sessions, several markets incl. an index market. Occurrences are taken from "
    "independent taps (acceptances, fills, session and step records); for every (event, hook kind, occurrence) "
    "the number of invocations must equal the number of that event's hooks that match by time and filter "
    "(0 or 1 per hook). 'Before' hooks must see the pending object unstamped; an altering hook's change must show "
    "in the accepted record; registering a hook twice must be refused. Case = one run; distinct = (seed, hook "
    "tables); non-trivial = run in which some hook fired and some hook was filtered out."
    ' Since the seeded rounds: a quarter of the probe events run as a subclass inheriting every handler, sessions with explicit empty event lists, Cancel objects sent again (occurrence = object x market time), every hook of every event re-registered after the run (must be refused).'
)
ASSUMPTIONS = [
    "occurrence time: market time at acceptance / fill time / session start for before-session / last step of "
    "the session for after-session / market time for step hooks",
]
KINDS = ["order_before", "order_after", "cancel_before", "cancel_after", "execution_after", "session_before",
         "session_after", "market_before", "market_after"]
REQUIRED = {
    "quick": dict({"fired/" + k: 5 for k in KINDS}, **{"filtered_out/" + k: 5 for k in KINDS},
                  **{"class/class_filter_matched": 5, "class/class_filter_mismatched": 5,
                     "class/instance_filter_matched": 5, "class/instance_filter_mismatched": 5,
                     "class/repeated_time_entry_hit": 3, "class/altered_order_checked": 20,
                     "class/double_registration_refused": 20, "occurrence_hook_pairs": 20000}),
    "thorough": dict({"fired/" + k: 150 for k in KINDS}, **{"filtered_out/" + k: 150 for k in KINDS},
                     **{"class/class_filter_matched": 150, "class/class_filter_mismatched": 150,
                        "class/instance_filter_matched": 150, "class/instance_filter_mismatched": 150,
                        "class/repeated_time_entry_hit": 80, "class/altered_order_checked": 600,
                        "class/double_registration_refused": 600, "occurrence_hook_pairs": 600000}),
}


def budget(tier):
    return 160 if tier == "quick" else 75000


def gen_case(rng, tier, idx):
    n_spot = rng.choice([1, 2, 3])
    cfg = {"simulation": {"markets": [], "agents": [], "sessions": []}}
    alter = rng.random() < 0.3
    for i in range(n_spot):
        tick = rng.choice([1.0, 0.5, 0.25]) if alter else rng.choice([1.0, 0.5, 0.1, 10.0])
        cfg["S%d" % i] = {"class": "Market" if rng.random() < 0.7 else "DepthMarket", "tickSize": tick,
                          "marketPrice": rng.choice([100, 400]) * tick, "outstandingShares": 1000}
        cfg["simulation"]["markets"].append("S%d" % i)
    if n_spot >= 2 and rng.random() < 0.6:
        cfg["IDX"] = {"class": "IndexMarket", "tickSize": 0.5, "markets": ["S0", "S1"], "outstandingShares": 1000,
                      "marketPrice": 100.0}
        cfg["simulation"]["markets"].append("IDX")
    mk = list(cfg["simulation"]["markets"])
    prog = gen_program(rng, "mixed")
    for w, tpl in prog["actions"]:
        if tpl["a"] == "limit":
            tpl["offgrid"] = 0.0
    prog["p_act"] = rng.choice([0.6, 1.0])
    if idx % 4 == 2:
        # agents that send the same Cancel object again in a later step (it carries the stamp of its first use)
        prog["resend_cancels"] = True
    cfg["A"] = {"class": "ScriptAgent", "numAgents": rng.randint(2, 4), "markets": mk, "cashAmount": 100000,
                "assetVolume": 50, "program": prog}
    cfg["simulation"]["agents"].append("A")
    if rng.random() < 0.4:
        p2 = gen_program(rng, "mixed")
        for w, tpl in p2["actions"]:
            if tpl["a"] == "limit":
                tpl["offgrid"] = 0.0
        cfg["H"] = {"class": "ScriptHFTAgent", "numAgents": 2, "markets": mk, "cashAmount": 100000, "assetVolume": 50,
                    "program": p2}
        cfg["simulation"]["agents"].append("H")
    ns = rng.choice([2, 3, 4])
    total = 0
    for i in range(ns):
        st = rng.choice([2, 4, 8, 15])
        if idx % 16 == 5:
            # long runs: hook times of several hundred steps (past the 100-step blocks and past the small integers)
            st = rng.choice([90, 130, 170])
        total += st
        pl, ex = rng.choice([(True, True), (True, True), (True, False), (False, False)])
        cfg["simulation"]["sessions"].append({"sessionName": i, "iterationSteps": st, "withOrderPlacement": pl,
                                              "withOrderExecution": ex, "withPrint": False,
                                              "maxNormalOrders": rng.choice([1, 2, 3]), "maxHighFrequencyOrders": 1})
    if rng.random() < 0.12:
        cfg["simulation"]["sessions"].insert(rng.randrange(ns + 1), {
            "sessionName": "empty", "iterationSteps": 0, "withOrderPlacement": True, "withOrderExecution": True,
            "withPrint": False})
        ns += 1
    if not any(s["withOrderPlacement"] and s["withOrderExecution"] for s in cfg["simulation"]["sessions"]):
        cfg["simulation"]["sessions"][0]["withOrderPlacement"] = cfg["simulation"]["sessions"][0]["withOrderExecution"] = True
    for j in range(rng.randint(1, 6)):
        si = rng.randrange(ns)
        p = gen_probe(rng, cfg, si, total)
        if rng.random() < 0.3:
            p["relativeTimes"] = True
        cfg["P%d" % j] = p
        cfg["simulation"]["sessions"][si].setdefault("events", []).append("P%d" % j)
    if rng.random() < 0.3:
        # a rule that switches execution off in the middle of a round with several fills
        cfg["HALT"] = {"class": "TradingHaltRule", "targetMarkets": rng.sample(mk, rng.randint(1, len(mk))),
                       "triggerChangeRate": rng.choice([0.0, 0.0, 0.005]), "haltingTimeLength": rng.choice([1, 2])}
        cfg["simulation"]["sessions"][rng.randrange(ns)].setdefault("events", []).insert(0, "HALT")
        for s_ in cfg["simulation"]["sessions"]:
            s_["maxNormalOrders"] = max(s_.get("maxNormalOrders", 1), 2)
    from ..runnerdrive import sprinkle_empty_event_lists

    sprinkle_empty_event_lists(rng, cfg)
    if alter:
        cfg["ALTER"] = {"class": "ProbeEvent", "alter": {"ticks": rng.choice([-3, -1, 2, 5])},
                        "hooks": [{"type": "order", "before": True, "time": None if rng.random() < 0.5 else
                                   list(range(0, total, 2))}]}
        cfg["simulation"]["sessions"][0].setdefault("events", []).append("ALTER")
    return {"drive": "runner", "seed": rng.randrange(1 << 31), "config": cfg, "profile": "hooks", "total": total}


def sample_of(case):
    cfg = case["config"]
    return {"seed": case["seed"], "sessions": [(s["iterationSteps"], s.get("events")) for s in cfg["simulation"]["sessions"]],
            "probes": {k: v for k, v in cfg.items() if isinstance(v, dict) and v.get("class") == "ProbeEvent"}}


class C13Monitor:
    def __init__(self, res, case):
        self.res = res
        self.case = case
        self.sim = None
        self.hooks = {}     # event -> [EventHook]
        self.occ = []       # (kind, key, time, market|None, ctx)
        self.inv = collections.Counter()   # (id(event), kind, key) -> invocations
        self.keep = []
        self.cancel_calls = {}
        self.calls_at = {}
        self.hook_uses = {}
        self.sess_cfg = case["config"]["simulation"]["sessions"]
        self.pending_alter = {}
        self.seq_of = {}

    def on_event(self, ev):
        k = ev["k"]
        res = self.res
        if k == "runner_setup_ret":
            self.sim = ev["runner"].simulator
        elif k == "probe_registered":
            self.hooks[ev["event"]] = list(ev["hooks"])
        elif k == "add_call":
            self.occ.append(("order_before", id(ev["order"]), ev["time"], ev["mkt"], None))
            self.keep.append(ev["order"])
        elif k == "add_ret":
            self.occ.append(("order_after", id(ev["log"]), ev["time"], ev["mkt"], None))
            self.keep.append(ev["log"])
            pa = self.pending_alter.pop(id(ev["order"]), None)
            if pa is not None:
                res.count("class/altered_order_checked")
                tick = ev["mkt"].tick_size
                acc = ev["log"].price
                P, T, A = Fraction(pa), Fraction(tick), Fraction(acc)
                if P % T == 0:
                    ok = acc == pa
                elif ev["log"].is_buy:
                    ok = A <= P < A + T
                else:
                    ok = A - T < P <= A
                if not ok or ev["order"].price != acc:
                    res.violation("alter", "alteration-by-before-order-hook-not-in-accepted-order",
                                  {"altered_to": pa, "accepted_price": acc, "tick": tick, "is_buy": ev["log"].is_buy})
        elif k == "altered":
            self.pending_alter[id(ev["order"])] = ev["new_price"]
        elif k == "cancel_call":
            # the same Cancel object may be sent again later: an occurrence is (object, market time)
            self.occ.append(("cancel_before", (id(ev["cancel"]), ev["time"]), ev["time"], ev["mkt"], None))
            self.cancel_calls[id(ev["cancel"])] = self.cancel_calls.get(id(ev["cancel"]), 0) + 1
            self.calls_at[(id(ev["cancel"]), ev["time"])] = self.calls_at.get((id(ev["cancel"]), ev["time"]), 0) + 1
            self.keep.append(ev["cancel"])
        elif k == "cancel_ret":
            # (the time of the occurrence is the market's time when the cancel was accepted - not the stamp in the record)
            self.occ.append(("cancel_after", id(ev["log"]), ev["time"], ev["mkt"], None))
            self.keep.append(ev["log"])
        elif k == "exec_ret":
            for log in ev["logs"]:
                self.occ.append(("execution_after", id(log), ev["time"], ev["mkt"], None))
                self.keep.append(log)
        elif k == "log_write":
            n = type(ev["log"]).__name__
            log = ev["log"]
            if n == "SessionBeginLog":
                s = log.session
                start = sum(c["iterationSteps"] for c in self.sess_cfg[: s.session_id])
                self.occ.append(("session_before", id(s), start, None, None))
                self.occ.append(("session_after", id(s), start + self.sess_cfg[s.session_id]["iterationSteps"] - 1, None, None))
                self.keep.append(s)
            elif n == "MarketStepBeginLog":
                self.occ.append(("market_before", (id(log.market), log.market.get_time()), log.market.get_time(), log.market, None))
                self.seq_of[("begin", id(log.market), log.market.get_time())] = ev["seq"]
            elif n == "MarketStepEndLog":
                self.occ.append(("market_after", (id(log.market), log.market.get_time()), log.market.get_time(), log.market, None))
                self.seq_of[("end", id(log.market), log.market.get_time())] = ev["seq"]
        elif k == "hook":
            what = ev["what"]
            if what.startswith("market"):
                key = (id(ev["market"]), ev["mtime"])
            elif what.startswith("session"):
                key = id(ev["session"])
            elif what == "order_before":
                key = id(ev["order"])
                s = ev["snap"]
                if s["order_id"] is not None or s["placed_at"] is not None:
                    res.violation("before", "before-order-hook-saw-an-already-accepted-order", {"order": s})
            elif what == "cancel_before":
                key = (id(ev["cancel"]), ev["mtime"])
                # the market call of an occurrence comes after its before-hooks: in this step the object must not
                # have been applied more often than this event's before-hook has already seen it (an object that
                # is sent again legitimately carries the stamp of its previous use)
                ck = (id(ev["cancel"]), ev["mtime"])
                hk = (id(ev["event"]), id(ev["cancel"]), ev["mtime"])
                seen_before = self.hook_uses.get(hk, 0)
                self.hook_uses[hk] = seen_before + 1
                if self.calls_at.get(ck, 0) > seen_before or (
                        ev["cancel_placed_at"] is not None and self.cancel_calls.get(id(ev["cancel"]), 0) == 0):
                    res.violation("before", "before-cancel-hook-saw-an-already-applied-cancel", {"order": ev["snap"]})
            else:
                key = id(ev["log"])
            self.inv[(id(ev["event"]), what, key)] += 1
            self.keep.append(ev["event"])

    def finish(self, out):
        res = self.res
        fired_any = filtered_any = False
        occ_by_kind = collections.defaultdict(list)
        for o in self.occ:
            occ_by_kind[o[0]].append(o)
        known = set()
        for event, hooks in self.hooks.items():
            for kind in KINDS:
                hs = [h for h in hooks if (h.hook_type + ("_before" if h.is_before else "_after")) == kind]
                if not hs:
                    continue
                mult = collections.Counter(o[1] for o in occ_by_kind.get(kind, []))
                done = set()
                for (_, key, t, mkt, _) in occ_by_kind.get(kind, []):
                    if key in done:
                        continue   # one object used twice within one step (a Cancel sent again): counted together
                    done.add(key)
                    exp = 0
                    for h in hs:
                        res.count("occurrence_hook_pairs")
                        want = h.intended_time if hasattr(h, "intended_time") else h.time
                        tm = want is None or t in want
                        fm = True
                        if kind.startswith("market"):
                            if h.specific_class is not None:
                                cm = isinstance(mkt, h.specific_class)
                                res.count("class/class_filter_matched" if cm else "class/class_filter_mismatched")
                                fm = fm and cm
                            if h.specific_instance is not None:
                                im = h.specific_instance is mkt
                                res.count("class/instance_filter_matched" if im else "class/instance_filter_mismatched")
                                fm = fm and im
                        if tm and fm:
                            exp += 1
                            res.count("fired/" + kind)
                            fired_any = True
                            if want is not None and want.count(t) > 1:
                                res.count("class/repeated_time_entry_hit")
                        else:
                            res.count("filtered_out/" + kind)
                            filtered_any = True
                    got = self.inv.get((id(event), kind, key), 0)
                    known.add((id(event), kind, key))
                    exp *= mult[key]
                    if got != exp:
                        spec = [getattr(h, "spec", None) for h in hs]
                        res.violation(
                            "exactly-once", "hook-invoked-wrong-number-of-times",
                            {"event": event.name, "kind": kind, "occurrence_time": t,
                             "market": getattr(mkt, "name", None), "expected": exp, "observed": got, "hooks": spec},
                        )
                        return fired_any, filtered_any
        # invocations for occurrences that never happened / kinds the event has no hook for
        for (eid, kind, key), n in self.inv.items():
            if (eid, kind, key) not in known:
                res.violation("exactly-once", "hook-invoked-without-matching-registration-or-occurrence",
                              {"kind": kind, "count": n})
                break
        # double registration must be refused
        # (every hook of every event, also the second and later ones of an event, once the run is over)
        for event, hooks in self.hooks.items():
            for i, h in enumerate(hooks):
                try:
                    self.sim._add_event(h)
                except ValueError:
                    res.count("class/double_registration_refused")
                    if i > 0:
                        res.count("class/double_registration_of_a_later_hook_refused")
                except Exception as e:  # noqa
                    res.count("double_registration_other_exception:" + type(e).__name__)
                else:
                    res.violation("register-once", "hook-registered-twice-without-error",
                                  {"event": event.name, "hook_number_of_the_event": i,
                                   "hook": getattr(h, "spec", None)})
                    return fired_any, filtered_any
        return fired_any, filtered_any


def run_case(case, res):
    taps.install()
    mon = C13Monitor(res, case)
    out = run_runner_case(case, [mon.on_event])
    if out.error is not None:
        res.count("runner_case_aborted:" + type(out.error).__name__)
        res.inconc("valid hook workload aborted: %r %s" % (out.error, (out.tb or "")[-500:]))
        return
    f, g = mon.finish(out)
    res.seen(canon_hash([case["seed"], sample_of(case)["probes"]]), f and g)
