"""C17 - index market values are share-weighted averages of their components."""
import random

from .. import taps
from ..core import canon_hash
from ..runnerdrive import gen_program, run_runner_case

RULE = (
    "runner drive with an index market over 2-4 components with unequal outstanding shares (declared before or "
    "after unrelated markets), volatile and shocked component fundamentals, scripted trading on components and "
    "index. get_index / get_market_index for every t <= now at step records, and the index market's recorded "
    "fundamental right after the clock advance, are compared with the monitor's own share-weighted mean "
    "(rel 1e-12). Setup-time negative cases: duplicate component, component without outstanding shares. Case = "
    "one run; distinct = (seed, component shares); non-trivial = unequal shares and moving component prices."
    ' Since the seeded rounds: ArbitrageAgent groups with full and partial access beside the index, static component fundamentals with a shock, share counts whose total exceeds 2**63 in every 11th run, compute_market_index / compute_fundamental_index among the judged getters, early times re-asked at every record, end-of-run comparison of the component list with the configuration; the computed fundamental index at earlier times, the index read right after every change of a book (a component that is only quoted and cancelled, never traded, in one run of eleven), an index over another index.'
)
ASSUMPTIONS = ["weighted mean computed with math.fsum over the same getters of the components"]
REQUIRED = {
    "quick": {"index_values_checked": 12000, "fundamental_index_checked": 2000, "class/unequal_shares_run": 28, "class/index_over_an_index_run": 4, "class/index_read_right_after_a_cancel": 500,
              "class/component_shock_run": 10, "class/component_prices_moved_run": 30,
              "class/duplicate_component_refused": 4, "class/component_without_shares_refused": 4,
              "class/arbitrageur_full_access_run": 2, "class/arbitrageur_partial_access_run": 2,
              "class/shock_on_component_of_an_index_with_static_fundamentals": 6},
    "thorough": {"index_values_checked": 600000, "fundamental_index_checked": 60000, "class/unequal_shares_run": 1200, "class/index_over_an_index_run": 150, "class/index_read_right_after_a_cancel": 25000,
                 "class/component_shock_run": 300, "class/component_prices_moved_run": 900,
                 "class/duplicate_component_refused": 150, "class/component_without_shares_refused": 150,
                 "class/arbitrageur_full_access_run": 120, "class/arbitrageur_partial_access_run": 120,
                 "class/shock_on_component_of_an_index_with_static_fundamentals": 200},
}


def budget(tier):
    return 110 if tier == "quick" else 26400


def gen_case(rng, tier, idx):
    if idx % 11 == 10:
        return {"drive": "setup-negative", "seed": rng.randrange(1 << 30), "kind": ["duplicate", "no-shares"][(idx // 11) % 2]}
    n = rng.choice([2, 2, 3, 4])
    cfg = {"simulation": {"markets": [], "agents": [], "sessions": []}}
    for i in range(n):
        tick = rng.choice([1.0, 0.5, 0.1, 0.01])
        cfg["S%d" % i] = {"class": "Market", "tickSize": tick, "marketPrice": rng.choice([100, 300, 2000]) * tick,
                          "outstandingShares": rng.choice([1, 100, 1000, 2500, 7777, 1000000, 3 * 10 ** 18, 4 * 10 ** 18, 5 * 10 ** 18]) if rng.random() < 0.85 else 1000,
                          "fundamentalVolatility": rng.choice([0.0, 0.005, 0.02]),
                          "fundamentalDrift": rng.choice([0.0, 0.001])}
        cfg["simulation"]["markets"].append("S%d" % i)
    spots = list(cfg["simulation"]["markets"])
    comps = rng.sample(spots, rng.randint(2, n))
    if idx % 11 == 7:
        comps = [rng.choice(spots)]     # an index on a single market
    if idx % 11 == 5:
        # share counts that each fit a machine word while their total does not
        comps = list(spots)
        for c in comps:
            cfg[c]["outstandingShares"] = rng.choice([4 * 10 ** 18, 5 * 10 ** 18, 6 * 10 ** 18])
        if len(comps) == 2:
            cfg[comps[0]]["outstandingShares"] = 5 * 10 ** 18
            cfg[comps[1]]["outstandingShares"] = 6 * 10 ** 18
    cfg["IDX"] = {"class": "IndexMarket", "tickSize": rng.choice([1.0, 0.5, 0.01]), "markets": comps,
                  "outstandingShares": 1000, "marketPrice": rng.choice([100.0, 500.0])}
    # an index market has to be declared after its components (its setup reads their outstanding shares);
    # markets that are not components may follow it
    if rng.random() < 0.25:
        cfg["IDX"]["userSubclass"] = True     # run as a user-registered subclass of IndexMarket
    last = max(cfg["simulation"]["markets"].index(c) for c in comps)
    cfg["simulation"]["markets"].insert(rng.randint(last + 1, len(cfg["simulation"]["markets"])), "IDX")
    if rng.random() < 0.3:
        # an unrelated market declared after the index market
        cfg["Z"] = {"class": "Market", "tickSize": 1.0, "marketPrice": 50.0, "outstandingShares": 10}
        cfg["simulation"]["markets"].append("Z")
    if rng.random() < 0.2 and len(spots) >= 2:
        cfg["IDX2"] = {"class": "IndexMarket", "tickSize": 0.5, "markets": spots[:2], "outstandingShares": 1000,
                       "marketPrice": 200.0}
        cfg["simulation"]["markets"].append("IDX2")
    if idx % 11 == 3:
        # an index over another index (which is a tradable market with its own price and shares) and a spot market
        cfg["TOP"] = {"class": "IndexMarket", "tickSize": 0.5, "markets": ["IDX", rng.choice(spots)],
                      "outstandingShares": 500, "marketPrice": 300.0}
        cfg["simulation"]["markets"].append("TOP")
    mk = list(cfg["simulation"]["markets"])
    prog = gen_program(rng, "mixed")
    prog["p_act"] = 0.9
    cfg["A"] = {"class": "ScriptAgent", "numAgents": rng.randint(3, 6), "markets": mk, "cashAmount": 100000,
                "assetVolume": 50, "program": prog}
    cfg["simulation"]["agents"].append("A")
    if idx % 11 == 8:
        # one component is only quoted, never traded: quotes away from each other and frequent cancels, so that its
        # market price is its mid price and moves when a best quote is withdrawn
        quiet = comps[0]
        cfg["A"]["markets"] = [m for m in mk if m != quiet] or mk
        cfg["QUOTE"] = {"class": "ScriptAgent", "numAgents": 3, "markets": [quiet], "cashAmount": 100000, "assetVolume": 50,
                        "program": {"p_act": 1.0, "max_batch": 2, "actions": [
                            [3, {"a": "limit", "side": "buy", "ref": "p0", "off": [-9, -2], "vol": [1, 3], "ttl": [None, 6]}],
                            [3, {"a": "limit", "side": "sell", "ref": "p0", "off": [2, 9], "vol": [1, 3], "ttl": [None, 6]}],
                            [4, {"a": "cancel", "which": "any"}]]}}
        cfg["simulation"]["agents"].append("QUOTE")
    arb = rng.random() < 0.25 and idx % 11 != 5
    if arb:
        # the built-in index arbitrageur watches the index (it needs equal shares); with full access it trades, with
        # access to only some of the components its threshold is out of reach so that it only watches
        eq = rng.choice([1000, 25000, 7777])
        for c in spots:
            cfg[c]["outstandingShares"] = eq
        full = rng.random() < 0.5
        acc = list(comps) if full else rng.sample(comps, rng.randint(0, len(comps) - 1))
        cfg["ARB"] = {"class": "ArbitrageAgent", "numAgents": rng.randint(1, 3), "markets": ["IDX"] + acc,
                      "cashAmount": 100000, "assetVolume": 50, "orderVolume": 1,
                      "orderThresholdPrice": rng.choice([0.5, 5.0]) if full else 1e12,
                      "orderTimeLength": rng.choice([1, 3])}
        cfg["simulation"]["agents"].append("ARB")
    ns = rng.choice([1, 2])
    total = 0
    for i in range(ns):
        st = rng.choice([5, 12, 30, 110])
        total += st
        cfg["simulation"]["sessions"].append({"sessionName": i, "iterationSteps": st, "withOrderPlacement": True,
                                              "withOrderExecution": rng.random() < 0.85, "withPrint": False,
                                              "maxNormalOrders": rng.choice([2, 5]), "maxHighFrequencyOrders": 1})
    if rng.random() < 0.25:
        # an event that makes sure a market is a constituent: refused (it already is), then the run goes on
        t_e = rng.randrange(1, max(2, total))
        cfg["ENSURE"] = {"class": "ProbeEvent", "hooks": [{"type": "market", "before": True, "time": None}],
                         "fundChanges": [{"time": t_e, "at_market": comps[0], "market": rng.choice(comps), "index": "IDX",
                                          "what": "ensure_component", "value": 0}]}
        cfg["simulation"]["sessions"][0].setdefault("events", []).append("ENSURE")
    if rng.random() < 0.2 and not arb:
        # the public outstanding_shares attribute of a component is changed during the run (e.g. a share issue)
        t_ch = rng.randrange(1, max(2, total))
        cfg["ISSUE"] = {"class": "ProbeEvent", "hooks": [{"type": "market", "before": True, "time": None}],
                        "fundChanges": [{"time": t_ch, "at_market": comps[0], "market": rng.choice(comps), "what": "shares",
                                         "value": rng.choice([1, 12345, 10 ** 7])}]}
        cfg["simulation"]["sessions"][0].setdefault("events", []).append("ISSUE")
    static = rng.random() < 0.2
    if static:
        # fundamentals that never move by themselves (the default of the sample configurations): only a shock
        # changes them
        for c in spots:
            cfg[c]["fundamentalVolatility"] = 0.0
            cfg[c]["fundamentalDrift"] = 0.0
    if rng.random() < (0.45 if not static else 0.9):
        cfg["SHOCK"] = {"class": "FundamentalPriceShock", "target": rng.choice(comps),
                        "triggerTime": rng.randrange(cfg["simulation"]["sessions"][0]["iterationSteps"]),
                        "priceChangeRate": rng.choice([-0.4, 0.25]), "shockTimeLength": rng.choice([1, 3])}
        cfg["simulation"]["sessions"][0].setdefault("events", []).append("SHOCK")
    return {"drive": "runner", "seed": rng.randrange(1 << 31), "config": cfg, "profile": "index", "total": total}


def sample_of(case):
    if case["drive"] != "runner":
        return case
    cfg = case["config"]
    return {"seed": case["seed"], "markets": cfg["simulation"]["markets"],
            "shares": {m: cfg[m].get("outstandingShares") for m in cfg["simulation"]["markets"]},
            "components": cfg["IDX"]["markets"], "shock": cfg.get("SHOCK")}


def close(a, b, rel=1e-12):
    return a == b or abs(a - b) <= rel * max(abs(a), abs(b))


def wmean(vals, shares):
    import math

    return math.fsum(v * s for v, s in zip(vals, shares)) / math.fsum(shares)


class C17Monitor:
    def __init__(self, res, case):
        self.res = res
        self.case = case
        self.sim = None
        self.idx = []
        self.checked_upto = {}
        self.moved = False
        self.dead = False

    def comps(self, im):
        cfg = self.case["config"][im.name]
        ms = [self.sim.name2market[n] for n in cfg["markets"]]
        # the weights are the components' outstanding shares as they are now (a public attribute)
        sh = [m.outstanding_shares for m in ms]
        return ms, sh

    def on_event(self, ev):
        if self.dead:
            return
        k = ev["k"]
        res = self.res
        if k == "runner_setup_ret":
            self.sim = ev["runner"].simulator
            self.idx = [m for m in self.sim.markets if hasattr(m, "get_components")]
            for im in self.idx:
                ms, sh = self.comps(im)
                got = im.get_components()
                if [m.name for m in got] != [m.name for m in ms] or [m.outstanding_shares for m in got] != \
                        [self.case["config"][n]["outstandingShares"] for n in self.case["config"][im.name]["markets"]]:
                    res.violation("components", "index-components-differ-from-configuration",
                                  {"index": im.name, "got": [m.name for m in got]})
        elif k == "time_exc" and hasattr(ev["mkt"], "get_components"):
            res.violation("fundamental", "index-market-clock-update-failed",
                          {"index": ev["mkt"].name, "exc": repr(ev["exc"])})
            self.dead = True
        elif k == "times_ret":
            # right after the clock advance: recorded fundamental of the index for the new time
            for im in self.idx:
                ms, sh = self.comps(im)
                t = im.get_time()
                exp = wmean([m.get_fundamental_price(t) for m in ms], sh)
                res.count("fundamental_index_checked")
                for name, got in (("get_fundamental_price", im.get_fundamental_price(t)),
                                  ("get_fundamental_index", im.get_fundamental_index(t)),
                                  ("compute_fundamental_index", im.compute_fundamental_index(t))):
                    if not close(got, exp):
                        res.violation("fundamental", "index-fundamental-not-share-weighted-mean-of-component-fundamentals",
                                      {"index": im.name, "time": t, "getter": name, "observed": got, "expected": exp,
                                       "components": [(m.name, m.get_fundamental_price(t), s) for m, s in zip(ms, sh)]})
                        self.dead = True
                        return
        elif k in ("cancel_ret", "add_ret", "exec_ret") and self.sim is not None:
            # right after every change of a book: the index as it is now
            for im in self.idx:
                ms, sh = self.comps(im)
                exp = wmean([c.get_market_price() for c in ms], sh)
                res.count("index_read_right_after_a_book_change")
                if k == "cancel_ret":
                    res.count("class/index_read_right_after_a_cancel")
                for name, got in (("get_index()", im.get_index()), ("get_market_index(now)", im.get_market_index(im.get_time()))):
                    if not close(got, exp):
                        res.violation("index", "index-value-not-share-weighted-mean-of-component-prices",
                                      {"index": im.name, "time": im.get_time(), "getter": name, "after": k, "observed": got,
                                       "expected": exp, "components": [(c.name, c.get_market_price(), s_) for c, s_ in zip(ms, sh)]})
                        self.dead = True
                        return
        elif k == "log_write" and type(ev["log"]).__name__ in ("MarketStepBeginLog", "MarketStepEndLog"):
            m = ev["log"].market
            if not hasattr(m, "get_components"):
                return
            im = m
            ms, sh = self.comps(im)
            now = im.get_time()
            # all past times once (they must not change: C06), the last two times every record
            start = max(0, min(self.checked_upto.get(im.name, 0), now - 1))
            # ... and time 0, the middle of the run so far and a rotating earlier time at every record: the value
            # "at any time" is asked again much later than it was recorded
            again = {0, now // 2, (now * 7 + 3) % (now + 1)}
            for t in sorted(set(range(start, now + 1)) | again):
                vals = [c.get_market_price(t) for c in ms]
                exp = wmean(vals, sh)
                res.count("index_values_checked")
                for name, f in (("get_index", im.get_index), ("get_market_index", im.get_market_index),
                                ("compute_market_index", im.compute_market_index)):
                    got = f(t)
                    if not close(got, exp):
                        res.violation("index", "index-value-not-share-weighted-mean-of-component-prices",
                                      {"index": im.name, "time": t, "now": now, "getter": name, "observed": got,
                                       "expected": exp, "components": [(c.name, v, s) for c, v, s in zip(ms, vals, sh)]})
                        self.dead = True
                        return
                # the fundamental index computed on request for that time is the same mean of the components'
                # fundamental values for that time as they are now (a shock may have rewritten them since the index
                # took its own record, which is not judged here)
                fv = [c.get_fundamental_price(t) for c in ms]
                got = im.compute_fundamental_index(t)
                res.count("computed_fundamental_index_for_earlier_times_checked")
                if not close(got, wmean(fv, sh)):
                    res.violation("fundamental", "index-fundamental-not-share-weighted-mean-of-component-fundamentals",
                                  {"index": im.name, "time": t, "now": now, "getter": "compute_fundamental_index(time)",
                                   "observed": got, "expected": wmean(fv, sh),
                                   "components": [(c.name, v, s_) for c, v, s_ in zip(ms, fv, sh)]})
                    self.dead = True
                    return
            if not close(im.get_index(), wmean([c.get_market_price() for c in ms], sh)):
                res.violation("index", "index-value-not-share-weighted-mean-of-component-prices",
                              {"index": im.name, "time": "now(default)"})
            self.checked_upto[im.name] = now
            if any(c.get_market_price() != c.get_market_price(0) for c in ms):
                self.moved = True


def run_negative(case, res):
    from pams.index_market import IndexMarket
    from pams.market import Market
    from pams.simulator import Simulator

    rng = random.Random(case["seed"])
    sim = Simulator(prng=random.Random(1))
    ms = []
    for i in range(3):
        m = Market(market_id=i, prng=random.Random(i), simulator=sim, name="m%d" % i)
        st = {"tickSize": 1.0, "marketPrice": 100.0 + i}
        if not (case["kind"] == "no-shares" and i == 1):
            st["outstandingShares"] = rng.choice([10, 2000])
        m.setup(st)
        sim._add_market(m)
        ms.append(m)
    im = IndexMarket(market_id=9, prng=random.Random(9), simulator=sim, name="idx")
    names = ["m0", "m1", "m2"]
    if case["kind"] == "duplicate":
        names = rng.choice([["m0", "m1", "m0"], ["m2", "m2"], ["m0", "m1", "m2", "m1"]])
    try:
        im.setup({"tickSize": 1.0, "marketPrice": 100.0, "markets": names})
    except Exception:  # noqa
        res.count("class/duplicate_component_refused" if case["kind"] == "duplicate" else
                  "class/component_without_shares_refused")
    else:
        res.violation("components", "duplicate-component-accepted" if case["kind"] == "duplicate" else
                      "component-without-outstanding-shares-accepted", {"markets": names})
    res.seen(canon_hash([case["kind"], names]), True)


def run_case(case, res):
    taps.install()
    if case["drive"] == "setup-negative":
        return run_negative(case, res)
    mon = C17Monitor(res, case)
    out = run_runner_case(case, [mon.on_event])
    if out.error is not None and mon.dead:
        return
    if out.error is not None:
        res.count("runner_case_aborted:" + type(out.error).__name__)
        res.inconc("valid index workload aborted: %r %s" % (out.error, (out.tb or "")[-500:]))
        return
    cfg = case["config"]
    sh = [cfg[c]["outstandingShares"] for c in cfg["IDX"]["markets"]]
    if len(set(sh)) > 1:
        res.count("class/unequal_shares_run")
    if "TOP" in cfg:
        res.count("class/index_over_an_index_run")
    if "SHOCK" in cfg:
        res.count("class/component_shock_run")
        if all(cfg[c].get("fundamentalVolatility", 0.0) == 0.0 and cfg[c].get("fundamentalDrift", 0.0) == 0.0
               for c in cfg["IDX"]["markets"]):
            res.count("class/shock_on_component_of_an_index_with_static_fundamentals")
    if mon.moved:
        res.count("class/component_prices_moved_run")
    if "ISSUE" in cfg:
        res.count("class/shares_changed_during_run")
    if "ARB" in cfg and any(s_.get("maxHighFrequencyOrders", 1) > 0 for s_ in cfg["simulation"]["sessions"]):
        res.count("class/arbitrageur_%s_access_run" % ("full" if len(cfg["ARB"]["markets"]) == len(sh) + 1 else "partial"))
    for im in mon.idx:
        if [m.name for m in im.get_components()] != list(cfg[im.name]["markets"]):
            res.violation("components", "index-components-differ-from-configuration",
                          {"index": im.name, "got": [m.name for m in im.get_components()], "when": "end of run"})
    res.seen(canon_hash([case["seed"], sh]), len(set(sh)) > 1 and mon.moved)
