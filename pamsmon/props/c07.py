"""C07 - reproducibility: configuration and seed determine the whole run."""
import copy
import json
import os
import random
import subprocess
import sys
import tempfile

from .. import taps
from ..core import PY, VERIF, canon_hash
from ..digest import run_digest

RULE = (
    "'kitchen-sink' configurations (correlated spot markets from count/range groups and extends chains, an index "
    "market, FCN fixed and normal margin, MarketShareFCN, MarketMaker, Arbitrage and Test agents, every built-in "
    "event class) run through the real runner. A SHA-256 digest over every logger record, every agent callback "
    "(base-class taps), every consultation result of scripted agents, all series, books, holdings and session "
    "attributes is compared between (1) two in-process runs on the SAME settings object with Python's and NumPy's "
    "global generators reseeded differently and an unrelated simulation run in between, and (2) child processes "
    "started with PYTHONHASHSEED 0, 1, 4242 and random. The settings object is deep-compared before/after. "
    "Different runner seeds must give different digests. Case = one configuration; distinct = hash(config, "
    "seed); non-trivial = run with >=50 fills and >=3 agent classes."
)
ASSUMPTIONS = ["the digest covers what the statement lists; wall-clock output of Runner.main is excluded"]
REQUIRED = {
    "quick": {"in_process_pairs": 20, "child_processes_compared": 8, "class/correlated_fundamentals": 5,
              "class/all_builtin_event_classes": 6, "class/nontrivial_run": 14, "different_seed_pairs": 10,
              "settings_objects_compared": 20, "near_twin_runs_before": 1, "refused_runs_before": 4,
              "class/cheap_stock_run_with_sub_tick_draws_compared": 1, "class/crowd_run_compared_with_and_without_a_logger": 2,
              "class/user_market_class_drawing_from_its_generator_compared_across_hash_seeds": 2},
    "thorough": {"in_process_pairs": 400, "child_processes_compared": 250, "class/correlated_fundamentals": 150,
                 "class/all_builtin_event_classes": 150, "class/nontrivial_run": 300, "different_seed_pairs": 200,
                 "settings_objects_compared": 400, "near_twin_runs_before": 30, "refused_runs_before": 100,
                 "class/cheap_stock_run_with_sub_tick_draws_compared": 20, "class/crowd_run_compared_with_and_without_a_logger": 30,
                 "class/user_market_class_drawing_from_its_generator_compared_across_hash_seeds": 30},
}
CASE_TIMEOUT_S = 600
SHARDS = {"quick": 16, "thorough": 16}


def budget(tier):
    return 32 if tier == "quick" else 640


def gen_case(rng, tier, idx):
    use_range = rng.random() < 0.5
    n_spot = rng.choice([2, 2, 3])
    cfg = {"simulation": {"markets": ["Spot", "Index"], "agents": [], "sessions": []}}
    cfg["MarketBase"] = {"class": "Market", "tickSize": rng.choice([0.01, 0.1, 1.0]), "marketPrice": 300.0,
                         "outstandingShares": 25000}
    cfg["SpotBase"] = {"extends": "MarketBase", "fundamentalVolatility": rng.choice([0.001, 0.005]),
                       "fundamentalDrift": rng.choice([0.0, 0.0001])}
    if idx % 8 == 4:
        # the spot markets are of a user-registered class that draws from the generator the runner hands to each market
        # (these runs are among those repeated in child processes with other hash seeds)
        cfg["MarketBase"]["class"] = "DrawingMarket"
    cfg["Spot"] = {"extends": "SpotBase"}
    if use_range:
        cfg["Spot"].update({"from": 0, "to": n_spot - 1})
    else:
        cfg["Spot"]["numMarkets"] = n_spot
    names = ["Spot-%d" % i for i in range(n_spot)]
    cfg["Index"] = {"class": "IndexMarket", "tickSize": 0.01, "marketPrice": 300.0, "outstandingShares": 25000,
                    "markets": list(names)}
    corr = rng.random() < 0.7
    if corr:
        pairs = [[names[0], names[1], rng.choice([-0.5, 0.3, 0.8])]]
        if n_spot == 3 and rng.random() < 0.5:
            pairs.append([names[1], names[2], rng.choice([0.1, 0.4])])
        cfg["simulation"]["fundamentalCorrelations"] = {"pairwise": pairs}
    cfg["FCNBase"] = {"class": "FCNAgent", "markets": ["Spot"], "assetVolume": 50, "cashAmount": 10000,
                      "fundamentalWeight": {"expon": [1.0]}, "chartWeight": {"expon": [0.2]},
                      "noiseWeight": {"expon": [1.0]}, "noiseScale": 0.001, "timeWindowSize": [20, 60],
                      "orderMargin": [0.0, 0.1]}
    cfg["FCNFixed"] = {"extends": "FCNBase", "numAgents": rng.randint(8, 20)}
    cfg["FCNNormal"] = {"extends": "FCNBase", "from": 100, "to": 100 + rng.randint(2, 6), "marginType": "normal",
                        "orderMargin": [0.0, 2.0], "markets": ["Spot", "Index"]}
    cfg["FCNIndex"] = {"extends": "FCNBase", "numAgents": rng.randint(4, 10), "markets": ["Index"]}
    cfg["Share"] = {"extends": "FCNBase", "class": "MarketShareFCNAgent", "numAgents": rng.randint(3, 8)}
    cfg["Maker"] = {"class": "MarketMakerAgent", "numAgents": rng.choice([1, 2]), "markets": ["Spot"],
                    "assetVolume": 50, "cashAmount": 10000, "targetMarket": rng.choice(names),
                    "netInterestSpread": rng.choice([0.01, 0.02]), "orderTimeLength": 2}
    cfg["Arb"] = {"class": "ArbitrageAgent", "numAgents": rng.randint(2, 5), "markets": ["Index", "Spot"],
                  "assetVolume": 50, "cashAmount": 150000, "orderVolume": 1, "orderThresholdPrice": rng.choice([0.5, 1.0])}
    cfg["Tester"] = {"class": "TestAgent", "numAgents": rng.randint(1, 4), "markets": ["Spot", "Index"],
                     "assetVolume": 50, "cashAmount": 10000}
    cfg["Script"] = {"class": "ScriptAgent", "numAgents": 2, "markets": ["Spot"], "assetVolume": 50, "cashAmount": 10000,
                     "program": {"p_act": 0.5, "max_batch": 2, "actions": [
                         [3, {"a": "limit", "side": "any", "off": [-3, 3], "vol": [1, 3], "ttl": [None, 3]}],
                         [1, {"a": "cancel", "which": "any"}], [1, {"a": "market", "side": "any", "vol": [1, 2], "ttl": [2]}]]}}
    cfg["simulation"]["agents"] = ["FCNFixed", "FCNNormal", "FCNIndex", "Share", "Maker", "Arb", "Tester", "Script"]
    if idx % 2 == 1:
        # a group that has its own id range AND is the parent of another group (whose range is its own)
        cfg["FCNNormalB"] = {"extends": "FCNNormal", "from": 300, "to": 300 + rng.randint(1, 3)}
        cfg["simulation"]["agents"].append("FCNNormalB")
    if idx % 8 == 2:
        # three more index markets, quoted every step with short-lived orders far from the price: orders of several index
        # markets reach the end of their lifetime in the same step (the records of one clock advance come in market order)
        for j in (2, 3, 4):
            cfg["Index%d" % j] = {"class": "IndexMarket", "tickSize": 0.01, "marketPrice": 300.0, "outstandingShares": 25000,
                                  "markets": list(names[:2])}
            cfg["simulation"]["markets"].append("Index%d" % j)
        cfg["IdxQuoter"] = {"class": "ScriptAgent", "numAgents": 4, "markets": ["Index2", "Index3", "Index4", "Index"],
                            "assetVolume": 50, "cashAmount": 10000,
                            "program": {"p_act": 1.0, "max_batch": 3, "actions": [
                                [1, {"a": "limit", "side": "buy", "off": [-900, -500], "vol": [1, 2], "ttl": [2, 3]}],
                                [1, {"a": "limit", "side": "sell", "off": [500, 900], "vol": [1, 2], "ttl": [2, 3]}]]}}
        cfg["simulation"]["agents"].append("IdxQuoter")
    # randomised endowments: every draw a component makes during setup must come from its own generator, in a
    # configuration-determined order (several market groups per agent type make the order matter)
    for g in ("FCNBase", "Arb", "Tester", "Script", "Maker"):
        if rng.random() < 0.7:
            cfg[g]["assetVolume"] = rng.choice([[10, 100], {"uniform": [20, 80]}, {"expon": [40]}])
        if rng.random() < 0.5:
            cfg[g]["cashAmount"] = rng.choice([[5000, 50000], {"normal": [20000, 100]}])
    if rng.random() < 0.35:
        # two-element ranges written with the larger bound first (same support, valid input)
        def flip(v):
            if isinstance(v, list) and len(v) == 2:
                return [v[1], v[0]]
            if isinstance(v, dict) and "uniform" in v:
                return {"uniform": [v["uniform"][1], v["uniform"][0]]}
            return v
        for g in ("FCNBase", "FCNNormal", "Arb", "Tester", "Script", "Maker"):
            for key in ("timeWindowSize", "orderMargin", "assetVolume", "cashAmount"):
                if key in cfg[g] and rng.random() < 0.7:
                    cfg[g][key] = flip(cfg[g][key])
    if rng.random() < 0.5:
        cfg["Script"]["markets"] = ["Index", "Spot"]
    if rng.random() < 0.5:
        cfg["Share"]["markets"] = ["Spot", "Index"]
    all_events = rng.random() < 0.7
    cfg["EvShock"] = {"class": "FundamentalPriceShock", "target": names[0], "triggerTime": rng.randint(0, 10),
                      "priceChangeRate": rng.choice([-0.1, 0.05]), "shockTimeLength": rng.choice([1, 2])}
    if rng.random() < 0.5:
        # event blocks inherit through 'extends' as market and agent blocks do
        cfg["EvShockBase"] = {k: v for k, v in cfg["EvShock"].items() if k != "triggerTime"}
        cfg["EvShock"] = {"extends": "EvShockBase", "triggerTime": cfg["EvShock"]["triggerTime"]}
    cfg["EvMistake"] = {"class": "OrderMistakeShock", "target": names[1], "triggerTime": rng.randint(0, 10),
                        "priceChangeRate": rng.choice([-0.05, 0.05]), "orderVolume": 50, "orderTimeLength": 20}
    cfg["EvLimit"] = {"class": "PriceLimitRule", "targetMarkets": [names[0]], "triggerChangeRate": 0.2}
    cfg["EvHalt"] = {"class": "TradingHaltRule", "targetMarkets": [names[1]], "triggerChangeRate": rng.choice([0.01, 0.03]),
                     "haltingTimeLength": rng.choice([2, 5])}
    evs = ["EvShock", "EvMistake", "EvLimit", "EvHalt"] if all_events else rng.sample(["EvShock", "EvMistake", "EvLimit", "EvHalt"], 2)
    s0 = {"sessionName": 0, "iterationSteps": rng.choice([5, 15]), "withOrderPlacement": True, "withOrderExecution": False,
          "withPrint": True, "maxNormalOrders": n_spot + 1, "maxHighFrequencyOrders": 0}
    s1 = {"sessionName": 1, "iterationSteps": rng.choice([30, 60, 90, 110]), "withOrderPlacement": True,
          "withOrderExecution": True, "withPrint": True, "maxNormalOrders": rng.choice([3, 6]),
          "maxHighFrequencyOrders": rng.choice([1, 3]), "highFrequencySubmitRate": rng.choice([0.5, 1.0]),
          "events": evs}
    cfg["simulation"]["sessions"] = [s0, s1]
    if rng.random() < 0.3:
        cfg["simulation"]["sessions"].append({"sessionName": 2, "iterationSteps": 10, "withOrderPlacement": True,
                                              "withOrderExecution": True, "withPrint": False, "maxNormalOrders": 2,
                                              "maxHifreqOrders": 1, "hifreqSubmitRate": 0.5})
    individual = idx % 8 == 0 or rng.random() < 0.3
    if individual:
        # spot markets declared one by one, with their own parameters (one of them without volatility); agent
        # types list the individual markets. A 'near twin' of such a configuration (same values, roles rotated)
        # is run first in the same process: nothing may leak from it into this run.
        n_spot = 4
        names = ["Spot-%d" % i for i in range(n_spot)]
        del cfg["Spot"]
        vols = [0.0] + [rng.choice([0.001, 0.003])] * 3 if rng.random() < 0.5 else [rng.choice([0.001, 0.003])] * 3 + [0.0]
        for i, nm in enumerate(names):
            cfg[nm] = {"extends": "MarketBase", "fundamentalVolatility": vols[i], "fundamentalDrift": [0.0, 0.0001, 0.0, -0.0001][i]}
        cfg["simulation"]["markets"] = names + ["Index"] + [k_ for k_ in ("Index2", "Index3", "Index4") if k_ in cfg]
        cfg["Index"]["markets"] = list(names)
        cfg["simulation"]["fundamentalCorrelations"] = {"pairwise": [[names[1], names[2], rng.choice([-0.5, 0.6, 0.9])]]}
        corr = True
        if rng.random() < 0.35:
            # exactly one market with a stochastic fundamental (the others flat or drifting deterministically)
            k1 = rng.randrange(n_spot)
            for i, nm in enumerate(names):
                cfg[nm]["fundamentalVolatility"] = rng.choice([0.001, 0.003]) if i == k1 else 0.0
            del cfg["simulation"]["fundamentalCorrelations"]
            corr = False
        for k, v in cfg.items():
            if isinstance(v, dict) and isinstance(v.get("markets"), list) and k != "Index":
                v["markets"] = [m for x in v["markets"] for m in (names if x == "Spot" else [x])]
        cfg["Maker"]["targetMarket"] = rng.choice(names)
        cfg["EvShock"]["target"] = names[1]
        cfg["EvMistake"]["target"] = names[2]
        cfg["EvLimit"]["targetMarkets"] = [names[1]]
        cfg["EvHalt"]["targetMarkets"] = [names[2]]
    if idx % 8 == 6:
        from .c10 import gen_crowd_case

        c = gen_crowd_case(rng)
        c.update({"profile": "kitchen-sink", "all_events": False, "corr": False, "children": False, "individual": False})
        return c
    if idx % 8 == 5:
        # a cheap stock: a price of a few ticks and FCN agents quoting with a normally distributed margin of more than a
        # tick, so that drawn prices fall below one tick a few times per run (rarely below zero, which the agent
        # itself refuses - such a run stops the same way in every process and is counted, not judged)
        # (the agents are anchored on the fundamental value - weight 50 against chart 0 and noise 0.1 - so that the drawn
        # prices are about N(3.25, 0.75): below one tick with probability 1.3e-3, below zero with probability 7e-6)
        cheap = {"simulation": {"markets": ["Cheap"], "agents": ["FCNCheap"], "sessions": [
            {"sessionName": 0, "iterationSteps": rng.choice([200, 260]), "withOrderPlacement": True,
             "withOrderExecution": True, "withPrint": False, "maxNormalOrders": 5}]},
            "Cheap": {"class": "Market", "tickSize": 1.0, "marketPrice": 3.25,
                      "fundamentalVolatility": 0.0005, "outstandingShares": 1000},
            "FCNCheap": {"class": "FCNAgent", "numAgents": rng.randint(20, 40), "markets": ["Cheap"], "assetVolume": 50,
                         "cashAmount": 10000, "fundamentalWeight": 50.0, "chartWeight": 0.0,
                         "noiseWeight": 0.1, "noiseScale": 0.001, "timeWindowSize": [20, 60],
                         "marginType": "normal", "orderMargin": 0.75}}
        return {"drive": "runner", "seed": rng.randrange(1 << 31), "config": cheap, "profile": "kitchen-sink",
                "all_events": False, "corr": False, "children": False, "individual": False}
    return {"drive": "runner", "seed": rng.randrange(1 << 31), "config": cfg, "profile": "kitchen-sink",
            "all_events": all_events, "corr": corr, "children": idx % 4 == 0, "individual": individual}


def near_twin(cfg):
    """same parameter values, roles rotated by one market."""
    twin = copy.deepcopy(cfg)
    names = [m for m in twin["simulation"]["markets"] if m.startswith("Spot-")]
    keys = ("fundamentalVolatility", "fundamentalDrift")
    vals = [{k: twin[n].get(k) for k in keys} for n in names]
    vals = vals[1:] + vals[:1]
    for n, v in zip(names, vals):
        twin[n].update(v)
    return twin


def sample_of(case):
    cfg = case["config"]
    return {"seed": case["seed"], "markets": cfg["simulation"]["markets"], "agents": cfg["simulation"]["agents"],
            "sessions": cfg["simulation"]["sessions"], "correlations": cfg["simulation"].get("fundamentalCorrelations")}


class GlobalRngTripwire:
    """diagnosis only: counts draws from the process-wide generators while a runner is active."""

    NAMES = ["random", "randint", "choice", "choices", "sample", "shuffle", "gauss", "uniform", "normalvariate", "randrange"]

    def __init__(self):
        self.calls = {}
        self._orig = {}

    def __enter__(self):
        import numpy as np

        for n in self.NAMES:
            o = getattr(random, n)
            self._orig[("random", n)] = o
            setattr(random, n, self._mk("random." + n, o))
        for n in ("rand", "randn", "random", "normal", "standard_normal", "randint", "choice", "shuffle"):
            o = getattr(np.random, n)
            self._orig[("np", n)] = o
            setattr(np.random, n, self._mk("numpy.random." + n, o))
        return self

    def _mk(self, name, o):
        def f(*a, **k):
            self.calls[name] = self.calls.get(name, 0) + 1
            return o(*a, **k)

        return f

    def __exit__(self, *exc):
        import numpy as np

        for (mod, n), o in self._orig.items():
            setattr(random if mod == "random" else np.random, n, o)


def child_digest(config, seed, hashseed):
    d = tempfile.mkdtemp(prefix="pamsmon-c07c-")
    try:
        path = os.path.join(d, "case.json")
        with open(path, "w") as f:
            json.dump({"drive": "runner", "seed": seed, "config": config}, f)
        env = dict(os.environ, PYTHONHASHSEED=hashseed, PYTHONPATH=VERIF)
        try:
            r = subprocess.run([PY, "-m", "pamsmon.digest", path], env=env, cwd=VERIF, capture_output=True, text=True, timeout=300)
        except subprocess.TimeoutExpired:
            return None
        if r.returncode != 0:
            return None
        return json.loads(r.stdout.strip().splitlines()[-1])
    finally:
        import shutil

        shutil.rmtree(d, ignore_errors=True)


def unrelated_run(seed):
    from ..runnerdrive import gen_runner_case, run_runner_case

    r = random.Random(seed)
    c = gen_runner_case(r, "quick", profile="matching")
    run_runner_case(c)


def run_case(case, res):
    import numpy as np

    taps.install()
    settings = copy.deepcopy(case["config"])
    pristine = copy.deepcopy(settings)
    if case.get("children"):
        # an earlier run in the same process that is REFUSED (a typo in an inherited block's name): the refusal
        # must not leave anything behind that changes the outcome of the valid run
        broken = copy.deepcopy(pristine)
        broken["MarketBaze"] = broken.pop("MarketBase")
        _, _, outb = run_digest(dict(case, config=broken))
        if outb.error is not None:
            res.count("refused_runs_before")
        else:
            res.count("broken_configuration_was_not_refused(see C18)")
        # ... and one that is refused late (after markets and agents were built), in an experiment that registered its
        # own classes under the same names
        broken2 = copy.deepcopy(pristine)
        broken2["simulation"]["sessions"][-1]["iterationSteps"] = broken2["simulation"]["sessions"][-1]["iterationSteps"] + 0.5
        _, _, outb2 = run_digest(dict(case, config=broken2, decoy_classes=True))
        if outb2.error is not None:
            res.count("runs_refused_late_with_other_classes_of_the_same_names_before")
    if case.get("individual") and case.get("children"):
        # an earlier, different-but-similar run in the same process (its outcome is irrelevant)
        try:
            run_digest(dict(case, config=near_twin(pristine), seed=case["seed"] + 17))
            res.count("near_twin_runs_before")
        except Exception:
            res.count("near_twin_run_failed")
    random.seed(11)
    np.random.seed(11)
    with GlobalRngTripwire() as tw:
        d1, st1, out1 = run_digest(case, settings_obj=settings)
    if out1.error is not None:
        # does the same configuration run in a fresh process? then the failure here is caused by what ran before
        fresh = child_digest(pristine, case["seed"], "0")
        if fresh is not None and fresh["error"] is None:
            res.violation("repro", "valid-run-fails-after-an-earlier-run-in-the-same-process",
                          {"error_in_process": repr(out1.error), "fresh_process": "ran normally", "tb": (out1.tb or "")[-600:]})
        elif fresh is not None and type(out1.error).__name__ in str(fresh["error"]):
            # the generated market ran into a state in which a built-in agent gives up (e.g. FCNAgent's own
            # finiteness assertion after the price collapsed): the run stops the same way in a fresh process,
            # which is all C07 can say about it; counted, and too many of them make the whole check inconclusive
            if "Cheap" in case["config"] and isinstance(out1.error, AssertionError) and "fcn_agent.py" in (out1.tb or ""):
                # expected now and then in the cheap-stock profile: a drawn price below zero, refused by the agent
                res.count("cheap_stock_run_stopped_by_the_agents_own_assertion_in_every_process(not judged further)")
            else:
                res.count("configuration_stops_the_same_way_in_a_fresh_process(not judged further)")
                last = [ln.strip() for ln in (out1.tb or "").strip().splitlines() if ln.strip().startswith("File ")][-1:]
                res.count("stopped_with:%s @ %s" % (type(out1.error).__name__, (last[0].split(", in ")[-1] if last else "?")))
        else:
            res.inconc("kitchen-sink configuration aborted: %r %s" % (out1.error, (out1.tb or "")[-500:]))
        return
    res.count("settings_objects_compared")
    if settings != pristine:
        diff = [k for k in set(settings) | set(pristine) if settings.get(k) != pristine.get(k)]
        res.violation("settings", "running-modified-the-callers-settings-object", {"changed_keys": diff[:10]})
    # perturb everything the statement says must not matter, reuse the same settings object
    random.seed(case["seed"] % 1000 + 12345)
    np.random.seed(case["seed"] % 1000 + 999)
    unrelated_run(case["seed"] + 1)
    for _ in range(17):
        random.random()
        np.random.random()
    d2, st2, out2 = run_digest(case, settings_obj=settings)
    res.count("in_process_pairs")
    if "Cheap" in case["config"]:
        res.count("class/cheap_stock_run_with_sub_tick_draws_compared")
    if out2.error is not None or d1 != d2:
        _, s1p, _ = run_digest(case, settings_obj=copy.deepcopy(pristine), parts=True)
        res.violation("repro", "same-configuration-and-seed-gave-different-outcomes-in-one-process",
                      {"digest1": d1, "digest2": d2, "stats1": st1, "stats2": st2, "error2": repr(out2.error),
                       "global_rng_calls_during_first_run": tw.calls, "sections_of_a_third_run": s1p.get("sections")})
    if case.get("crowd"):
        # ... and of nothing else: the same run without a logger (optional argument left out) trades identically -
        # everything but the records themselves (agents' answers and notifications, series, books, holdings)
        _, sa, oa = run_digest(case, settings_obj=copy.deepcopy(pristine), parts=True)
        _, sb, ob = run_digest(case, settings_obj=copy.deepcopy(pristine), parts=True, with_logger=False)
        res.count("class/crowd_run_compared_with_and_without_a_logger")
        a_ = {k: v for k, v in (sa.get("sections") or {}).items() if k != "log"}
        b_ = {k: v for k, v in (sb.get("sections") or {}).items() if k != "log"}
        if oa.error is not None or ob.error is not None or a_ != b_:
            res.violation("repro", "outcome-depends-on-whether-a-logger-is-attached",
                          {"with_logger": a_, "without_logger": b_, "errors": [repr(oa.error), repr(ob.error)],
                           "fills": [sa.get("fills"), sb.get("fills")]})
    if tw.calls:
        res.count("runs_that_drew_from_global_generators(diagnosis)")
    # a different runner seed must give a different outcome (guards against a digest that observes nothing)
    c2 = dict(case, seed=case["seed"] + 1)
    d3, st3, out3 = run_digest(c2, settings_obj=copy.deepcopy(pristine))
    res.count("different_seed_pairs")
    if out3.error is None and d3 == d1:
        res.inconc("a different runner seed produced the same digest: the digest observes too little")
    if case.get("corr"):
        res.count("class/correlated_fundamentals")
    if case.get("all_events"):
        res.count("class/all_builtin_event_classes")
    nontrivial = st1["fills"] >= 50 and len(st1["agent_classes"]) >= 3
    if nontrivial:
        res.count("class/nontrivial_run")
    res.count("fills", st1["fills"])
    res.count("records", st1["records"])
    res.count("callbacks", st1["callbacks"])
    # the runner also accepts a path / file object: same configuration, same outcome
    if case["seed"] % 3 == 0:
        d = tempfile.mkdtemp(prefix="pamsmon-c07f-")
        try:
            path = os.path.join(d, "config.json")
            with open(path, "w") as f:
                json.dump(pristine, f)
            d4, st4, out4 = run_digest(case, settings_obj=path if case["seed"] % 2 else open(path))
            res.count("settings_from_file_runs")
            if out4.error is not None or d4 != d1:
                res.violation("repro", "outcome-differs-when-the-same-settings-are-read-from-a-file",
                              {"digest_dict": d1, "digest_file": d4, "error": repr(out4.error)})
        finally:
            import shutil

            shutil.rmtree(d, ignore_errors=True)
    # child processes with different hash seeds
    if case.get("children"):
        d = tempfile.mkdtemp(prefix="pamsmon-c07-")
        try:
            path = os.path.join(d, "case.json")
            with open(path, "w") as f:
                json.dump({"drive": "runner", "seed": case["seed"], "config": pristine}, f)
            for hs in ("0", "1", "4242", "random"):
                env = dict(os.environ, PYTHONHASHSEED=hs, PYTHONPATH=VERIF)
                try:
                    r = subprocess.run([PY, "-m", "pamsmon.digest", path], env=env, cwd=VERIF, capture_output=True,
                                       text=True, timeout=300)
                except subprocess.TimeoutExpired:
                    res.inconc("child process timed out")
                    continue
                if r.returncode != 0:
                    res.inconc("child process failed: " + (r.stderr or "")[-400:])
                    continue
                o = json.loads(r.stdout.strip().splitlines()[-1])
                res.count("child_processes_compared")
                if case["config"].get("MarketBase", {}).get("class") == "DrawingMarket":
                    res.count("class/user_market_class_drawing_from_its_generator_compared_across_hash_seeds")
                if o["digest"] != d1:
                    res.violation("repro", "outcome-depends-on-the-process-hash-seed-or-process-state",
                                  {"PYTHONHASHSEED": hs, "digest_in_process": d1, "digest_child": o["digest"],
                                   "stats_child": o["stats"], "stats_in_process": st1, "child_error": o["error"]})
                    break
        finally:
            import shutil

            shutil.rmtree(d, ignore_errors=True)
    res.seen(canon_hash([case["seed"], sample_of(case)]), nontrivial)


def finalize(res, tier, seed, env):
    stopped = res.counters.get("configuration_stops_the_same_way_in_a_fresh_process(not judged further)", 0)
    if stopped * 20 > max(1, res.evaluations):
        res.inconc("%d of %d generated configurations stopped by themselves (more than 5%%)" % (stopped, res.evaluations))
    return {}
