"""C02 - fills follow price-time priority; order comparison is a strict total order."""
import itertools

from .. import taps
from ..core import canon_hash
from ..direct import DirectRun, gen_deep_cancel_history, gen_expiry_history, gen_history, gen_tie_history
from ..tracker import BookTracker

RULE = (
    "direct drive with few price levels (many orders per level, cancels of non-top orders, expiries, "
    "re-insertion after rounds) plus runner drive. Case = one matching round judged against the pre-round shadow "
    "book ranked by the monitor's own key; distinct = hash(pre-round book, fills); non-trivial = >=2 orders of a "
    "side compete at one price, or a removal from the middle of the book preceded the round. Also: best order "
    "after every boundary return, and all six comparison operators on pairs of live same-side orders."
    " Since the seeded rounds: tie-block histories (6-16 orders sharing price and acceptance step, eaten by many small rounds), cancel bursts in stopped phases, forced rounds on a stopped market, requests refused by design followed by a best-order check at that quiescent point, and a 'clipped' runner profile (price limit rule + HFT agents)."
)
ASSUMPTIONS = [
    "Market.buy_order_book / sell_order_book expose get_best_order/get_best_price (named in observe_at)",
    "priority key written from the statement: market orders first, better price, earlier time, lower id",
]
REQUIRED = {
    "quick": {"rounds_with_fills": 300, "class/tie_price_time": 30, "class/nontop_cancel_then_round": 10,
              "class/expiry_then_round": 10, "class/round_after_round": 50, "pairs_compared": 2000,
              "best_checks": 2000},
    "thorough": {"rounds_with_fills": 5000, "class/tie_price_time": 500, "class/nontop_cancel_then_round": 200,
                 "class/expiry_then_round": 200, "class/round_after_round": 1000, "pairs_compared": 50000,
                 "best_checks": 50000},
}


def budget(tier):
    return 1200 if tier == "quick" else 120000


def gen_case(rng, tier, idx):
    if idx % 10 in (2, 3, 4):
        c = gen_expiry_history(rng, tier)
        c["drive"] = "direct"
        return c
    if idx % 20 == 1:
        from ..direct import gen_deep_auction_history

        c = gen_deep_auction_history(rng, tier)
        c["drive"] = "direct"
        return c
    if idx % 10 in (5, 6):
        c = gen_tie_history(rng, tier)
        c["drive"] = "direct"
        return c
    if idx % 10 in (7, 8):
        c = gen_deep_cancel_history(rng, tier)
        c["drive"] = "direct"
        return c
    if idx % 10 == 9:
        from ..runnerdrive import gen_runner_case

        c = gen_runner_case(rng, tier, profile="matching", clipped=(idx % 20 == 19))
        if idx % 20 == 9:
            # order mistake shocks in the first trading session: the arriving order is rewritten in place (side, kind,
            # price, volume, lifetime) before the market accepts it - it must be ranked as what it has become
            cfg = c["config"]
            ss = [s_ for s_ in cfg["simulation"]["sessions"] if s_["withOrderPlacement"]]
            spots = [m for m in cfg["simulation"]["markets"] if cfg[m]["class"] != "IndexMarket"]
            for j, t in enumerate([0, 1, 2, 3, 5, 8]):
                cfg["OMS%d" % j] = {"class": "OrderMistakeShock", "target": rng.choice(spots), "triggerTime": t,
                                    "priceChangeRate": rng.choice([-0.02, 0.02, -0.005, 0.005]), "orderVolume": rng.choice([1, 2, 5]),
                                    "orderTimeLength": rng.choice([5, 30, 200])}
                ss[0].setdefault("events", []).append("OMS%d" % j)
            for k, v in cfg.items():
                if isinstance(v, dict) and "program" in v:
                    v["program"]["p_act"] = 1.0
        return c
    prof = {"max_levels": rng.choice([1, 1, 2, 3, 4])}
    if rng.random() < 0.5:
        prof["tick"] = rng.choice([1.0, 0.5, 10.0, 0.1])
    c = gen_history(rng, tier, prof)
    c["drive"] = "direct"
    return c


def sample_of(case):
    if case.get("drive") == "direct":
        return {"drive": "direct", "tick": case["tick"], "mode": case["mode"], "ops": case["ops"][:25]}
    return {"drive": "runner", "seed": case.get("seed"), "sessions": case["config"]["simulation"]["sessions"]}


class C02Monitor(BookTracker):
    def __init__(self, res, all_pairs_limit=25):
        super().__init__()
        self.res = res
        self.flags = {}
        self.pre_cancel_best = {}
        self.all_pairs_limit = all_pairs_limit

    def _flags(self, book):
        return self.flags.setdefault(book.market_id, set())

    # ---- (ii) best order after every boundary return ----------------------
    def check_best(self, mkt, book, where):
        res = self.res
        for is_buy, ob in ((True, mkt.buy_order_book), (False, mkt.sell_order_book)):
            exp = book.best(is_buy)
            got = ob.get_best_order()
            res.count("best_checks")
            if (exp is None) != (got is None) or (exp is not None and got is not exp.obj):
                res.violation(
                    "best", "best-order-is-not-the-highest-priority-resting-order",
                    {"where": where, "side": "buy" if is_buy else "sell",
                     "expected": exp.brief() if exp else None,
                     "observed": taps.snap_order(got) if got is not None else None,
                     "shadow_side": [so.brief() for so in book.side(is_buy)][:12]},
                )
                return
            gp = ob.get_best_price()
            mp = mkt.get_best_buy_price() if is_buy else mkt.get_best_sell_price()
            ep = exp.price if exp is not None else None
            if gp != ep or mp != ep:
                res.violation("best", "best-price-is-not-price-of-highest-priority-order",
                              {"where": where, "expected": ep, "order_book": gp, "market": mp})
                return

    # ---- (iii) comparison operators -------------------------------------
    def compare_pair(self, a, b):
        """a, b: SOrder of the same side, distinct."""
        res = self.res
        res.count("pairs_compared")
        ka, kb = a.key(), b.key()
        x, y = a.obj, b.obj
        try:
            obs = (x < y, x > y, x == y, x != y, x <= y, x >= y, y < x, y > x)
        except Exception as e:  # noqa
            res.violation("order", "comparison-raises-on-accepted-same-side-orders",
                          {"a": a.brief(), "b": b.brief(), "exc": repr(e)})
            return
        lt = ka < kb
        exp = (lt, not lt, False, True, lt, not lt, not lt, lt)
        if obs != exp:
            res.violation(
                "order", "comparison-operators-disagree-with-priority-ranking",
                {"a": a.brief(), "b": b.brief(), "ops": ["a<b", "a>b", "a==b", "a!=b", "a<=b", "a>=b", "b<a", "b>a"],
                 "observed": obs, "expected": exp},
            )

    def reflexive(self, a):
        x = a.obj
        try:
            bad = (x < x) or (x > x) or not (x == x) or (x != x) or not (x <= x) or not (x >= x)
        except Exception as e:  # noqa
            self.res.violation("order", "comparison-raises-on-accepted-same-side-orders",
                               {"a": a.brief(), "b": "(the same order)", "exc": repr(e)})
            return
        if bad:
            self.res.violation("order", "comparison-not-irreflexive", {"a": a.brief()})

    # ---- hooks ------------------------------------------------------------
    def on_accept(self, ev, book, so):
        if book.anomalies:
            self.res.violation("order", "duplicate-order-id", {"anomalies": book.anomalies[:3]})
            del book.anomalies[:]
        same = [o for o in book.live.values() if o.is_buy == so.is_buy and o is not so]
        # compare with the neighbours in rank and a few others
        same.sort(key=lambda o: o.key())
        pick = same if len(same) <= 8 else same[:3] + same[-2:] + same[len(same) // 2 - 1: len(same) // 2 + 2]
        for o in pick:
            self.compare_pair(so, o)
        self.reflexive(so)
        self.check_best(ev["mkt"], book, "after-accept")

    def on_other(self, ev):
        if ev["k"] == "refused_ret":
            self.check_best(ev["mkt"], self.book(ev["mkt"]), "after-refused-request")
        if ev["k"] == "cancel_call":
            book = self.book(ev["mkt"])
            so = book.live.get(ev["snap"]["order_id"])
            if so is not None:
                b = book.best(so.is_buy)
                self.pre_cancel_best[book.market_id] = b is so

    def on_cancel(self, ev, book, so):
        if so is not None and self.pre_cancel_best.pop(book.market_id, True) is False:
            self._flags(book).add("nontop_cancel")
        self.check_best(ev["mkt"], book, "after-cancel")

    def on_clock(self, ev, book, expired):
        if expired:
            self._flags(book).add("expiry")
        self.check_best(ev["mkt"], book, "after-clock")

    def on_round(self, ev, book, pre, fills):
        res = self.res
        res.count("rounds")
        fl = self._flags(book)
        self.check_best(ev["mkt"], book, "after-round")
        if not fills:
            return
        res.count("rounds_with_fills")
        used = {}
        for log, _, _ in fills:
            used[("B", log.buy_order_id)] = used.get(("B", log.buy_order_id), 0) + log.volume
            used[("S", log.sell_order_id)] = used.get(("S", log.sell_order_id), 0) + log.volume
        cls = []
        for is_buy, tag in ((True, "B"), (False, "S")):
            ranked = sorted((x for x in pre.values() if x[0].is_buy == is_buy), key=lambda x: x[0].key())
            last_filled = -1
            for i, (so, rem) in enumerate(ranked):
                if used.get((tag, so.oid), 0) > 0:
                    last_filled = i
            for i, (so, rem) in enumerate(ranked[: max(last_filled, 0)]):
                if used.get((tag, so.oid), 0) < rem:
                    low = ranked[last_filled][0]
                    res.violation(
                        "priority", "lower-priority-order-filled-while-higher-priority-order-has-unfilled-volume",
                        {"side": tag, "skipped": so.brief() | {"rem_before": rem, "filled": used.get((tag, so.oid), 0)},
                         "filled_lower": low.brief(),
                         "ranked": [s.brief() | {"rem_before": r} for s, r in ranked[:12]],
                         "fills": [taps.snap_log(l) for l, _, _ in fills]},
                    )
                    break
            # competition at one price and time among the orders the round had to choose from
            for i in range(min(last_filled + 1, len(ranked) - 1)):
                a, b = ranked[i][0], ranked[i + 1][0]
                if a.is_market == b.is_market and a.price == b.price:
                    cls.append("same_price_competition")
                    if a.placed_at == b.placed_at:
                        cls.append("tie_price_time")
        if "nontop_cancel" in fl:
            cls.append("nontop_cancel_then_round")
        if "expiry" in fl:
            cls.append("expiry_then_round")
        if "round" in fl:
            cls.append("round_after_round")
        for c in set(cls):
            res.count("class/" + c)
        nontrivial = bool({"same_price_competition", "nontop_cancel_then_round", "expiry_then_round"} & set(cls))
        res.seen(
            canon_hash([sorted((so.is_buy, so.is_market, so.price, rem, so.placed_at, so.oid) for so, rem in pre.values()),
                        [(l.buy_order_id, l.sell_order_id, l.volume) for l, _, _ in fills]]),
            nontrivial,
        )
        fl.clear()
        fl.add("round")

    def finish(self):
        for book in self.books.values():
            for is_buy in (True, False):
                side = book.side(is_buy)
                if 2 <= len(side) <= self.all_pairs_limit:
                    for a, b in itertools.combinations(side, 2):
                        self.compare_pair(a, b)


def run_case(case, res):
    taps.install()
    mon = C02Monitor(res)
    if case.get("drive") == "runner":
        from ..runnerdrive import run_runner_case

        out = run_runner_case(case, [mon.on_event])
        if out.error is not None:
            res.count("runner_case_aborted:" + type(out.error).__name__)
        mon.finish()
        return
    run = DirectRun(case)
    taps.add_sink(mon.on_event)
    try:
        run.run(on_op_exc=lambda i, op, e: res.count("op_raised:" + type(e).__name__) or "stop")
    finally:
        taps.remove_sink(mon.on_event)
    mon.finish()
