"""C12 - fundamentals: positive geometric walk with configured drift, vol, correlation."""
import math
import random

from .. import taps
from ..core import canon_hash
from ..fundtrack import FundTracker

RULE = (
    "direct drive of the real Fundamentals (through real Market objects for shocks): 1-5 markets with random "
    "admissible initial value, drift, volatility (incl. zero) and positive-definite pairwise correlations, "
    "horizons up to 350 steps across the 100-step generation chunks, 0-6 change points (volatility, drift, "
    "set/remove correlation, price shock) applied 'now'. Oracles: (1) first value, positivity, finiteness; (2) "
    "exact algebraic probe per generated chunk: log-returns = L z + drift for the recorded standard-normal draws "
    "z with L L^T = diag(vol) Corr diag(vol); zero-volatility rows exactly the drift; (3) price recursion "
    "p[t+1] = p[t] exp(r[t]) across chunk joins and change points; (4) zero-volatility closed form; (5) values "
    "before a change point never change; (6) long-run statistical monitor (20000 steps): mean, deviation, excess "
    "kurtosis and pairwise correlation of log-returns within 6.5 standard errors. Case = one configuration; "
    "distinct = hash(parameters, changes); non-trivial = >=2 markets with a correlation or >=1 change point."
    " Since the seeded rounds: requests refused by design (negative volatility, correlation outside (-1,1), same market twice) followed by normal use, changes one step before / on / after the generation horizon, the algebraic probe judged against the monitor's own parameter model, and a case kind 'config' (runner drive: market types in any declaration order giving, omitting or zeroing drift and volatility; closed form for zero volatility, log-return scale otherwise)."
)
ASSUMPTIONS = [
    "the generator draws its normals through numpy Generator.standard_normal (recorded by a proxy); if no draw is "
    "recorded the algebraic probe is inconclusive and only the statistical monitor speaks",
    "parameter changes are made at times that have already been generated (what an event acting 'now' does)",
]
REQUIRED = {
    "quick": {"chunks_probed_algebraically": 300, "recursion_points": 50000, "class/correlated_config": 40,
              "class/zero_volatility_market": 18, "class/change_point": 150, "class/shock_change": 30,
              "class/correlation_change": 20, "class/crossed_2_chunks": 28, "statistical_runs": 2,
              "history_prefix_checks": 150, "class/late_start_market": 10,
              "class/refused_parameter_request_then_normal_use": 15, "class/config_run": 10},
    "thorough": {"chunks_probed_algebraically": 9000, "recursion_points": 1500000, "class/correlated_config": 1200,
                 "class/zero_volatility_market": 900, "class/change_point": 4500, "class/shock_change": 900,
                 "class/correlation_change": 900, "class/crossed_2_chunks": 1200, "statistical_runs": 40,
                 "history_prefix_checks": 4500, "class/late_start_market": 300,
                 "class/refused_parameter_request_then_normal_use": 450, "class/config_run": 1200},
}
CASE_TIMEOUT_S = 300


def budget(tier):
    return 200 if tier == "quick" else 24000


def rand_corr(rng, ids):
    """pairwise correlations whose matrix is positive definite (by construction from a factor model)."""
    n = len(ids)
    if n < 2:
        return []
    k = rng.choice([1, 2])
    A = [[rng.gauss(0, 1) for _ in range(k)] for _ in range(n)]
    d = [rng.uniform(0.3, 1.5) for _ in range(n)]
    C = [[sum(A[i][x] * A[j][x] for x in range(k)) + (d[i] if i == j else 0.0) for j in range(n)] for i in range(n)]
    pairs = []
    for i in range(n):
        for j in range(i + 1, n):
            if rng.random() < 0.8:
                c = C[i][j] / math.sqrt(C[i][i] * C[j][j])
                c = max(-0.95, min(0.95, round(c, 3)))
                pairs.append([ids[i], ids[j], c])
    return pairs


def is_pd(n, ids, pairs, extra=None):
    import numpy as np

    M = np.eye(n)
    idx = {m: i for i, m in enumerate(ids)}
    for a, b, c in pairs:
        if a in idx and b in idx:
            M[idx[a], idx[b]] = M[idx[b], idx[a]] = c
    return bool(np.all(np.linalg.eigvalsh(M) > 0.02))


def gen_config_case(rng):
    """the way from the configuration to the generator: several market types in any order, each giving, omitting
    (default 0.0) or explicitly zeroing drift and volatility, groups of several markets, an index market."""
    n_types = rng.choice([2, 3, 3, 4])
    cfg = {"simulation": {"markets": [], "agents": ["Q"], "sessions": [
        {"sessionName": 0, "iterationSteps": rng.choice([40, 120, 230]), "withOrderPlacement": True,
         "withOrderExecution": True, "withPrint": False}]}}
    expect = {}
    for i in range(n_types):
        name = "T%d" % i
        e = {"class": "Market", "tickSize": rng.choice([1.0, 0.1]), "outstandingShares": 1000}
        init = rng.choice([100.0, 300.0, 2500.0])
        if rng.random() < 0.5:
            e["marketPrice"] = init
            if rng.random() < 0.3:
                e["fundamentalPrice"] = init = init * rng.choice([1.0, 1.1])
        else:
            e["fundamentalPrice"] = init
        drift = vol = 0.0
        r = rng.random()
        if r < 0.4:
            vol = e["fundamentalVolatility"] = rng.choice([0.001, 0.01, 0.03])
        elif r < 0.55:
            e["fundamentalVolatility"] = 0.0
        r = rng.random()
        if r < 0.4:
            drift = e["fundamentalDrift"] = rng.choice([0.001, -0.0005, 0.0002])
        elif r < 0.55:
            e["fundamentalDrift"] = 0.0
        names = [name]
        if rng.random() < 0.3:
            k = rng.choice([2, 3])
            e["numMarkets"] = k
            names = ["%s-%d" % (name, j) for j in range(k)]
        cfg[name] = e
        cfg["simulation"]["markets"].append(name)
        for n_ in names:
            expect[n_] = {"initial": init, "drift": drift, "vol": vol}
    order = list(cfg["simulation"]["markets"])
    rng.shuffle(order)
    cfg["simulation"]["markets"] = order
    cfg["Q"] = {"class": "ScriptAgent", "numAgents": 1, "markets": list(order), "cashAmount": 1000, "assetVolume": 1,
                "program": {"p_act": 0.0, "actions": []}}
    return {"kind": "config", "config": cfg, "expect": expect, "seed": rng.randrange(1 << 30), "drive": "runner"}


def run_config(case, res):
    """zero-volatility markets (given, omitted or explicit 0.0) follow initial x exp(drift x t) exactly; volatile
    ones move; every market starts at its configured initial value."""
    from ..runnerdrive import run_runner_case

    seen = {}

    def sink(ev):
        if ev["k"] == "times_ret":
            for m in ev["sim"].markets if "sim" in ev else []:
                seen.setdefault(m.name, []).append((m.get_time(), m.get_fundamental_price()))

    out = run_runner_case(case, [sink])
    if out.error is not None:
        import re

        frames = re.findall(r'File "([^"]+)", line \d+, in (\S+)', out.tb or "")
        if frames and frames[-1][0].replace("\\", "/").endswith("pams/fundamentals.py") and \
                not isinstance(out.error, (ValueError, AssertionError)):
            # the process itself broke down on markets it accepted (no deliberate refusal is an IndexError / KeyError /
            # TypeError raised from inside the generator): no fundamental value is delivered at all
            res.violation("process", "fundamental-generation-raised-for-accepted-markets",
                          {"exc": repr(out.error), "where": "%s in %s" % frames[-1], "config": case["config"]})
            return
        res.inconc("valid market configuration aborted: %r %s" % (out.error, (out.tb or "")[-400:]))
        return
    sim = out.simulator
    res.count("class/config_run")
    for m in sim.markets:
        e = case["expect"].get(m.name)
        if e is None:
            continue
        series = m.get_fundamental_prices(range(0, m.get_time() + 1))
        res.count("config_markets_checked")
        if series[0] != e["initial"]:
            res.violation("initial", "first-fundamental-is-not-the-configured-initial-value",
                          {"market": m.name, "value": series[0], "initial": e["initial"], "config": case["config"][m.name.split("-")[0]]})
            return
        if not all(isinstance(v, float) and math.isfinite(v) and v > 0 for v in series):
            res.violation("positive", "fundamental-not-a-positive-finite-number", {"market": m.name})
            return
        if e["vol"] == 0.0:
            res.count("class/config_zero_volatility_market" + ("" if "fundamentalVolatility" in case["config"][m.name.split("-")[0]] else "_by_default"))
            for t, v in enumerate(series):
                cf = e["initial"] * math.exp(e["drift"] * t)
                if not close(v, cf, 1e-9):
                    res.violation("zero-vol", "zero-volatility-path-is-not-initial-times-exp-drift-t",
                                  {"market": m.name, "time": t, "value": v, "expected": cf,
                                   "market_settings": case["config"][m.name.split("-")[0]],
                                   "declaration_order": case["config"]["simulation"]["markets"]})
                    return
        else:
            lr = [math.log(series[t + 1] / series[t]) for t in range(len(series) - 1)]
            if len(set(lr)) <= 1:
                res.violation("transform", "positive-volatility-market-generated-without-noise", {"market": m.name})
                return
            # scale of the log-returns: within a factor of the configured volatility (a coarse, safe bound: the
            # exact statistics are judged by the direct cases)
            sd = (sum((x - sum(lr) / len(lr)) ** 2 for x in lr) / max(1, len(lr) - 1)) ** 0.5
            if len(lr) >= 39 and not (e["vol"] / 2.5 < sd < e["vol"] * 2.5):
                res.violation("volatility", "log-return-deviation-differs-from-configured-volatility",
                              {"market": m.name, "configured": e["vol"], "realised": sd, "n": len(lr),
                               "declaration_order": case["config"]["simulation"]["markets"]})
                return
    res.seen(canon_hash([case["seed"], sorted(case["expect"].items())]), True)


def gen_case(rng, tier, idx):
    if idx % 10 == 6:
        return gen_config_case(rng)
    if idx % 40 == 39:
        n = 3
        mk = [{"id": i, "initial": rng.choice([100.0, 3000.0]), "drift": rng.choice([0.0, 0.0005, -0.0003]),
               "vol": rng.choice([0.001, 0.01, 0.03])} for i in range(n)]
        pairs = [[0, 1, rng.choice([-0.6, 0.3, 0.8])], [1, 2, rng.choice([0.0, 0.4])]]
        if not is_pd(3, [0, 1, 2], pairs):
            pairs = pairs[:1]
        if idx % 80 == 79:
            # four markets, two pairs with correlations of equal size and opposite sign
            mk.append({"id": 3, "initial": 100.0, "drift": 0.0, "vol": rng.choice([0.001, 0.01])})
            c = rng.choice([0.5, 0.6])
            pairs = [[0, 1, c], [2, 3, -c]]
        return {"kind": "stat", "markets": mk, "corr": pairs, "T": 20000, "seed": rng.randrange(1 << 30)}
    n = rng.choice([1, 2, 2, 3, 4, 5])
    cancelling = idx % 10 == 3
    if cancelling:
        n = rng.choice([4, 5])
    mk = []
    for i in range(n):
        mk.append({"id": i, "initial": rng.choice([1.0, 100.0, 512.0, 25000.0]) * rng.choice([1, 1.37]),
                   "drift": rng.choice([0.0, 0.0, 0.001, -0.001, 0.01, -0.01]),
                   "vol": rng.choice([0.0, 0.0005, 0.005, 0.02, 0.05, 0.05, 2e-9, 1e-7])})
        if cancelling and i < 4 and mk[-1]["vol"] < 1e-4:
            mk[-1]["vol"] = rng.choice([0.005, 0.02])
    vol_ids = [m["id"] for m in mk if m["vol"] > 0]
    pairs = rand_corr(rng, vol_ids) if rng.random() < 0.7 else []
    if cancelling:
        # correlations of opposite sign (and of equal size, or three that add up to zero) between different pairs
        c = rng.choice([0.5, 0.3, 0.75, 0.9, 0.25])
        pairs = rng.choice([[[0, 1, c], [2, 3, -c]], [[0, 1, -c], [2, 3, c]], [[0, 1, 0.5], [1, 2, 0.25], [2, 3, -0.75]],
                            [[0, 2, c], [1, 3, -c]]])
    while pairs and not is_pd(len(vol_ids), vol_ids, pairs):
        pairs.pop()
    # pairs may be written in either orientation
    pairs = [[b, a, c] if rng.random() < 0.5 else [a, b, c] for a, b, c in pairs]
    if n >= 2 and rng.random() < 0.2:
        # markets whose fundamental only starts moving later (add_market(start_at=...))
        for m in rng.sample(mk[1:], rng.randint(1, len(mk) - 1)):
            m["start"] = rng.choice([1, 7, 99, 100, 130])
    T = rng.choice([5, 40, 99, 100, 101, 150, 199, 200, 201, 250, 330, 350])
    changes = []
    for _ in range(rng.choice([0, 0, 1, 2, 3, 6])):
        t = rng.randrange(T) if rng.random() < 0.9 else 0
        if rng.random() < 0.35:
            # on and around the generation-chunk boundaries (also relative to an earlier change point)
            base_t = rng.choice([0] + [c["t"] for c in changes])
            cand = [base_t + k * 100 + d for k in (1, 2, 3) for d in (-2, -1, 0, 1)]
            cand = [x for x in cand if 0 <= x < T]
            if cand:
                t = rng.choice(cand)
        r = rng.random()
        m = rng.choice(mk)["id"]
        if rng.random() < 0.15:
            # a request that is refused by design (and tolerated by the caller); everything must go on as configured
            changes.append({"t": t, "what": "refused", "m": m, "m2": rng.choice(mk)["id"],
                            "form": rng.choice(["negative_volatility", "negative_volatility", "corr_too_large",
                                                "corr_too_small", "corr_same_market", "rmcorr_same_market"]),
                            "v": rng.choice([0.01, 0.05, 0.3])})
        elif r < 0.25:
            changes.append({"t": t, "what": "vol", "m": m, "v": rng.choice([0.0, 0.001, 0.01, 0.04])})
        elif r < 0.45:
            changes.append({"t": t, "what": "drift", "m": m, "v": rng.choice([0.0, 0.002, -0.002])})
        elif r < 0.65:
            changes.append({"t": t, "what": "shock", "m": m, "v": rng.choice([0.5, 0.9, 1.1, 2.0])})
        elif r < 0.85 and n >= 2:
            a, b = rng.sample(range(n), 2)
            changes.append({"t": t, "what": "setcorr", "m": a, "m2": b, "v": rng.choice([-0.5, 0.2, 0.6, 0.9])})
        elif n >= 2:
            changes.append({"t": t, "what": "rmcorr"})
    # a market that has not started yet has no price to shock and no path to re-parameterise: changes that name
    # a late-starting market are placed at or after its start (input domain, DESIGN.md 2.6/7)
    st = {m["id"]: m.get("start", 0) for m in mk}
    for c in changes:
        for key in ("m", "m2"):
            if key in c and c["t"] < st.get(c[key], 0):
                c["t"] = min(T - 1, st[c[key]] + c["t"] % 5)
    changes = [c for c in changes if all(c["t"] >= st.get(c.get(k, -1), 0) for k in ("m", "m2"))]
    if rng.random() < 0.3:
        # a shock (or a parameter change) exactly one or two generation chunks after the last change point, i.e.
        # exactly on the horizon up to which values exist when it happens
        last = max([c["t"] for c in changes] + [0])
        t = last + 100 * rng.choice([1, 1, 2]) + rng.choice([0, 0, -1, -1, 1])
        m = rng.choice(mk)["id"]
        if t < T and t >= st.get(m, 0):
            changes.append({"t": t, "what": "shock", "m": m, "v": rng.choice([0.5, 0.7, 1.4])} if rng.random() < 0.7 else
                           {"t": t, "what": "drift", "m": m, "v": rng.choice([0.003, -0.003])})
    changes.sort(key=lambda c: c["t"])
    return {"kind": "walk", "markets": mk, "corr": pairs, "T": T, "changes": changes, "seed": rng.randrange(1 << 30)}


def sample_of(case):
    c = dict(case)
    c.pop("_idx", None)
    return c


class GenProxy:
    def __init__(self, g, log):
        self._g = g
        self._log = log

    def standard_normal(self, *a, **k):
        z = self._g.standard_normal(*a, **k)
        self._log.append(z)
        return z

    def __getattr__(self, n):
        return getattr(self._g, n)


def close(a, b, rel=1e-12):
    return a == b or abs(a - b) <= rel * max(abs(a), abs(b))


class MiniSim:
    def __init__(self, f):
        self.fundamentals = f
        self.current_session = None


def algebraic_probe(res, gen, draws, case):
    """gen: FundTracker generation record; draws: list of arrays drawn during it."""
    import numpy as np

    ids = gen["ids"]
    R = np.asarray(gen["ret"], dtype=float)
    vols, drifts, corr = gen["vols"], gen["drifts"], gen["corr"]
    ch = [m for m in ids if vols[m] != 0.0]
    ot = [m for m in ids if vols[m] == 0.0]
    wit = {"ids": ids, "vols": {str(k): v for k, v in vols.items()}, "drifts": {str(k): v for k, v in drifts.items()},
           "corr": {str(k): v for k, v in corr.items()}, "start": gen["start"], "length": gen["length"]}
    if R.shape != (len(ids), gen["length"]):
        res.violation("transform", "log-return-block-has-wrong-shape", dict(wit, shape=list(R.shape)))
        return
    for m in ot:
        row = R[ids.index(m)]
        if not np.all(row == drifts[m]):
            res.violation("zero-vol", "zero-volatility-log-return-is-not-exactly-the-drift",
                          dict(wit, market=m, row=row[:3].tolist()))
            return
    for m in ch:
        row = R[ids.index(m)]
        if gen["length"] >= 3 and np.all(row == row[0]):
            res.violation("transform", "positive-volatility-market-generated-without-noise",
                          dict(wit, market=m, volatility=vols[m], row=row[:3].tolist()))
            return
    if not ch:
        return
    if not draws:
        res.count("chunks_without_recorded_normal_draws")
        return
    Z = np.asarray(draws[-1], dtype=float)
    if Z.shape != (len(ch), gen["length"]) or gen["length"] < 3 * len(ch):
        res.count("chunks_not_probed(shape)")
        return
    Rc = np.stack([R[ids.index(m)] for m in ch])
    mu = np.asarray([drifts[m] for m in ch]).reshape(-1, 1)
    Y = Rc - mu
    # solve Y = L Z
    Lt, *_ = np.linalg.lstsq(Z.T, Y.T, rcond=None)
    L = Lt.T
    resid = float(np.max(np.abs(L @ Z - Y)))
    sig = np.asarray([vols[m] for m in ch])
    C = np.eye(len(ch))
    for (a, b), c in corr.items():
        if a in ch and b in ch:
            C[ch.index(a), ch.index(b)] = C[ch.index(b), ch.index(a)] = c
    S = sig.reshape(-1, 1) * C * sig.reshape(1, -1)
    scale = float(np.max(np.abs(S)))
    err = float(np.max(np.abs(L @ L.T - S)))
    res.count("chunks_probed_algebraically")
    res.maximum("max_transform_residual_e-15", int(resid / max(scale ** 0.5, 1e-300) * 1e15))
    res.maximum("max_cov_error_rel_e-15", int(err / scale * 1e15))
    if resid > 1e-9 * max(1.0, float(np.max(np.abs(Y)))):
        res.violation("transform", "log-returns-are-not-an-affine-map-of-the-normal-draws", dict(wit, residual=resid))
        return
    if err > 1e-9 * scale:
        # which part is off?
        d = np.sqrt(np.clip(np.diag(L @ L.T), 0, None))
        mech = "log-return-covariance-differs-from-vol-corr-vol"
        if np.max(np.abs(d - sig)) > 1e-9 * float(np.max(sig)):
            mech = "log-return-deviation-differs-from-configured-volatility"
        res.violation("transform", mech, dict(wit, LLt=(L @ L.T).tolist(), expected=S.tolist()))


def run_walk(case, res):
    from pams.fundamentals import Fundamentals
    from pams.market import Market

    taps.install()
    f = Fundamentals(prng=random.Random(case["seed"]))
    draws = []
    if hasattr(f, "_np_prng"):
        f._np_prng = GenProxy(f._np_prng, draws)
    else:
        res.count("no_np_prng_attribute")
    sim = MiniSim(f)
    ft = FundTracker()
    mk = case["markets"]
    init = {m["id"]: m["initial"] for m in mk}
    n_gen = [0]
    model = {}

    def sink(ev):
        g = ft.on_event(ev)
        if g is not None:
            n_gen[0] += 1
            # judged against the monitor's own parameter model (configuration + admitted changes), not against
            # whatever the object under test stores at this moment
            g = dict(g, vols={k: model["vol"].get(k, v) for k, v in g["vols"].items()},
                     drifts={k: model["drift"].get(k, v) for k, v in g["drifts"].items()}, corr=dict(model["corr"]))
            algebraic_probe(res, g, draws, case)
            del draws[:]

    markets = {}
    for m in mk:
        if m.get("start"):
            f.add_market(market_id=m["id"], initial=m["initial"], drift=m["drift"], volatility=m["vol"], start_at=m["start"])
            res.count("class/late_start_market")
        else:
            f.add_market(market_id=m["id"], initial=m["initial"], drift=m["drift"], volatility=m["vol"])
        mo = Market(market_id=m["id"], prng=random.Random(m["id"]), simulator=sim, name="m%d" % m["id"])
        mo.setup({"tickSize": 1.0, "fundamentalPrice": m["initial"]})
        markets[m["id"]] = mo
    for a, b, c in case["corr"]:
        f.set_correlation(market_id1=a, market_id2=b, corr=c)
    params = {"vol": {m["id"]: m["vol"] for m in mk}, "drift": {m["id"]: m["drift"] for m in mk},
              "corr": {(min(a, b), max(a, b)): c for a, b, c in case["corr"]}}
    model.update(params)
    T = case["T"]
    changes = list(case["changes"])
    hist = {m["id"]: [] for m in mk}       # values as first read, per time
    zero_ref = {m["id"]: (m.get("start", 0), m["initial"]) for m in mk}   # (time, level) from which the closed form runs
    starts = {m["id"]: m.get("start", 0) for m in mk}
    taps.add_sink(sink)
    dead = False
    min_gen = {}
    min_gen_from = [10 ** 9, 0]   # from this time on, log-returns must come from generation index >= [1]
    last_change = [None]
    try:
        for t in range(T + 1):
            # clock advance: every market records the value for the new time
            for mid, mo in markets.items():
                v = f.get_fundamental_price(market_id=mid, time=t)
                mo._update_time(next_fundamental_price=v)
                if not (isinstance(v, float) and math.isfinite(v) and v > 0):
                    res.violation("positive", "fundamental-not-a-positive-finite-number", {"market": mid, "time": t, "value": v})
                    dead = True
                    break
                if t == 0 and v != init[mid]:
                    res.violation("initial", "first-fundamental-is-not-the-configured-initial-value",
                                  {"market": mid, "value": v, "initial": init[mid]})
                    dead = True
                    break
                if t > 0:
                    prev = hist[mid][t - 1]
                    exp = ft.expected_next(mid, t - 1, prev)
                    if exp is None or t <= starts[mid]:
                        # not generated (yet): a market that starts later keeps its initial value until then
                        res.count("flat_points_before_start")
                        if t <= starts[mid] and v != init[mid]:
                            res.violation("initial", "fundamental-moves-before-its-configured-start",
                                          {"market": mid, "time": t, "value": v, "initial": init[mid], "start_at": starts[mid]})
                            dead = True
                            break
                    else:
                        res.count("recursion_points")
                        if ft.latest_gen.get((mid, t - 1), 0) < min_gen.get(t - 1, min_gen_from[1] if t - 1 >= min_gen_from[0] else 0):
                            res.violation("continues", "values-after-a-change-point-not-regenerated-with-the-new-parameters",
                                          {"market": mid, "time": t, "last_change": last_change[0]})
                            dead = True
                            break
                        if not close(v, exp, 1e-11):
                            res.violation("recursion", "price-is-not-previous-price-times-exp-log-return",
                                          {"market": mid, "time": t, "value": v, "previous": prev, "expected": exp})
                            dead = True
                            break
                    if params["vol"][mid] == 0.0 and t > starts[mid]:
                        t0, lvl = zero_ref[mid]
                        cf = lvl * math.exp(params["drift"][mid] * (t - t0))
                        res.count("closed_form_points")
                        if not close(v, cf, 1e-10):
                            res.violation("zero-vol", "zero-volatility-path-is-not-initial-times-exp-drift-t",
                                          {"market": mid, "time": t, "value": v, "expected": cf, "since": t0})
                            dead = True
                            break
                hist[mid].append(v)
            if dead:
                break
            # list form agrees with the scalar form
            if t % 37 == 0:
                for mid in markets:
                    lst = f.get_fundamental_prices(market_id=mid, times=range(0, t + 1))
                    if list(lst) != hist[mid][: t + 1]:
                        res.violation("history", "value-before-a-change-point-changed",
                                      {"market": mid, "time": t, "via": "get_fundamental_prices"})
                        dead = True
                        break
            # change points "now"
            while changes and changes[0]["t"] == t and not dead:
                ch = changes.pop(0)
                snap = {mid: list(h) for mid, h in hist.items()}
                gens_before = len(ft.gens)
                res.count("class/change_point")
                what = ch["what"]
                if what == "refused":
                    try:
                        if ch["form"] == "negative_volatility":
                            f.change_volatility(market_id=ch["m"], volatility=-ch["v"], time=t)
                        elif ch["form"] == "corr_too_large":
                            f.set_correlation(market_id1=ch["m"], market_id2=ch["m2"], corr=1.0 + ch["v"], time=t)
                        elif ch["form"] == "corr_too_small":
                            f.set_correlation(market_id1=ch["m"], market_id2=ch["m2"], corr=-1.0 - ch["v"], time=t)
                        elif ch["form"] == "corr_same_market":
                            f.set_correlation(market_id1=ch["m"], market_id2=ch["m"], corr=ch["v"], time=t)
                        else:
                            f.remove_correlation(market_id1=ch["m"], market_id2=ch["m"], time=t)
                    except ValueError:
                        res.count("class/refused_parameter_request_then_normal_use")
                    else:
                        res.violation("change", "inadmissible-parameter-request-accepted", {"change": ch})
                        dead = True
                        break
                    for mid in markets:
                        if list(f.get_fundamental_prices(market_id=mid, times=range(0, t + 1))) != snap[mid][: t + 1]:
                            res.violation("history", "value-before-a-change-point-changed",
                                          {"market": mid, "change": ch})
                            dead = True
                    continue
                try:
                    if what == "vol":
                        ids_after = [m_ for m_ in params["vol"] if (ch["v"] if m_ == ch["m"] else params["vol"][m_]) > 0]
                        if not is_pd(len(ids_after), ids_after, [[a, b, c] for (a, b), c in params["corr"].items()]):
                            res.count("volatility_change_skipped(not admissible)")
                            continue
                        f.change_volatility(market_id=ch["m"], volatility=ch["v"], time=t)
                        if ch["v"] == 0.0 and params["vol"][ch["m"]] != 0.0 or ch["v"] == 0.0:
                            zero_ref[ch["m"]] = (max(t, starts[ch["m"]]), hist[ch["m"]][t])
                        params["vol"][ch["m"]] = ch["v"]
                        if ch["v"] == 0.0:
                            # correlations with a zero-volatility market are ignored by construction
                            pass
                    elif what == "drift":
                        f.change_drift(market_id=ch["m"], drift=ch["v"], time=t)
                        params["drift"][ch["m"]] = ch["v"]
                        zero_ref[ch["m"]] = (max(t, starts[ch["m"]]), hist[ch["m"]][t])
                    elif what == "shock":
                        markets[ch["m"]].change_fundamental_price(scale=ch["v"])
                        res.count("class/shock_change")
                        newv = markets[ch["m"]].get_fundamental_price()
                        if not close(newv, hist[ch["m"]][t] * ch["v"]):
                            res.violation("shock", "shocked-level-is-not-value-times-scale",
                                          {"market": ch["m"], "time": t, "value": newv, "expected": hist[ch["m"]][t] * ch["v"]})
                        hist[ch["m"]][t] = newv
                        snap[ch["m"]][t] = newv
                        zero_ref[ch["m"]] = (max(t, starts[ch["m"]]), newv)
                        if f.get_fundamental_price(market_id=ch["m"], time=t) != newv:
                            res.violation("shock", "shocked-level-not-visible-in-fundamentals", {"market": ch["m"], "time": t})
                    elif what == "setcorr":
                        cur = dict(params["corr"])
                        trial = [[a, b, c] for (a, b), c in cur.items() if {a, b} != {ch["m"], ch["m2"]}] + [[ch["m"], ch["m2"], ch["v"]]]
                        ids = [m_ for m_ in params["vol"] if params["vol"][m_] > 0]
                        if ch["m"] in ids and ch["m2"] in ids and is_pd(len(ids), ids, trial):
                            f.set_correlation(market_id1=ch["m"], market_id2=ch["m2"], corr=ch["v"], time=t)
                            params["corr"][(min(ch["m"], ch["m2"]), max(ch["m"], ch["m2"]))] = ch["v"]
                            res.count("class/correlation_change")
                        else:
                            res.count("correlation_change_skipped(not admissible)")
                            continue
                    elif what == "rmcorr":
                        if params["corr"]:
                            (a, b) = sorted(params["corr"])[0]
                            ids = [m_ for m_ in params["vol"] if params["vol"][m_] > 0]
                            rest = [[x, y, c] for (x, y), c in params["corr"].items() if (x, y) != (a, b)]
                            if not is_pd(len(ids), ids, rest):
                                res.count("correlation_change_skipped(not admissible)")
                                continue
                            f.remove_correlation(market_id1=a, market_id2=b, time=t)
                            del params["corr"][(a, b)]
                            res.count("class/correlation_change")
                        else:
                            continue
                except Exception as e:  # noqa
                    res.violation("change", "admissible-parameter-change-raised", {"change": ch, "exc": repr(e)})
                    dead = True
                    break
                min_gen_from[0], min_gen_from[1] = t, gens_before
                last_change[0] = ch
                # nothing before (and, for parameter changes, at) t may have changed - check after regeneration
                for mid in markets:
                    f.get_fundamental_price(market_id=mid, time=t + 1)  # forces regeneration
                    now = f.get_fundamental_prices(market_id=mid, times=range(0, t + 1))
                    res.count("history_prefix_checks")
                    if list(now) != snap[mid][: t + 1]:
                        bad = [i for i, (x, y) in enumerate(zip(now, snap[mid])) if x != y][:3]
                        res.violation("history", "value-before-a-change-point-changed",
                                      {"market": mid, "change": ch, "times": bad,
                                       "was": [snap[mid][i] for i in bad], "is": [now[i] for i in bad]})
                        dead = True
                        break
                    if markets[mid].get_fundamental_prices(range(0, t + 1)) != snap[mid][: t + 1]:
                        res.violation("history", "value-before-a-change-point-changed",
                                      {"market": mid, "change": ch, "via": "Market.get_fundamental_prices"})
                        dead = True
                        break
            if dead:
                break
    finally:
        taps.remove_sink(sink)
    if taps.hits["gen_log_return"] == 0:
        res.inconc("log-return generation tap never hit")
    if len(case["corr"]) and len(mk) >= 2:
        res.count("class/correlated_config")
    if any(m["vol"] == 0.0 for m in mk):
        res.count("class/zero_volatility_market")
    if T > 200:
        res.count("class/crossed_2_chunks")
    res.seen(canon_hash([mk, case["corr"], case["changes"], T]), (len(case["corr"]) > 0) or len(case["changes"]) > 0)


def run_stat(case, res):
    import numpy as np
    from pams.fundamentals import Fundamentals

    f = Fundamentals(prng=random.Random(case["seed"]))
    mk = case["markets"]
    for m in mk:
        f.add_market(market_id=m["id"], initial=m["initial"], drift=m["drift"], volatility=m["vol"])
    for a, b, c in case["corr"]:
        f.set_correlation(market_id1=a, market_id2=b, corr=c)
    T = case["T"]
    P = {m["id"]: np.asarray(f.get_fundamental_prices(market_id=m["id"], times=range(T + 1))) for m in mk}
    N = T
    R = {}
    for m in mk:
        p = P[m["id"]]
        if not np.all(np.isfinite(p)) or not np.all(p > 0):
            res.violation("positive", "fundamental-not-a-positive-finite-number", {"market": m["id"]})
            return
        if p[0] != m["initial"]:
            res.violation("initial", "first-fundamental-is-not-the-configured-initial-value", {"market": m["id"], "value": float(p[0])})
        r = np.diff(np.log(p))
        R[m["id"]] = r
        mu, sd = float(np.mean(r)), float(np.std(r, ddof=1))
        z_mean = (mu - m["drift"]) / (m["vol"] / math.sqrt(N))
        z_sd = (sd ** 2 - m["vol"] ** 2) / (m["vol"] ** 2 * math.sqrt(2.0 / N))
        kurt = float(np.mean(((r - mu) / sd) ** 4) - 3.0)
        z_k = kurt / math.sqrt(24.0 / N)
        skew = float(np.mean(((r - mu) / sd) ** 3))
        z_s = skew / math.sqrt(6.0 / N)
        ac = float(np.corrcoef(r[:-1], r[1:])[0, 1])
        z_ac = ac * math.sqrt(N)
        res.maximum("max_abs_z_stat", round(max(abs(z_mean), abs(z_sd), abs(z_k), abs(z_s), abs(z_ac)), 2))
        wit = {"market": m, "N": N, "mean": mu, "sd": sd, "excess_kurtosis": kurt, "skew": skew, "lag1_autocorr": ac,
               "z": {"mean": z_mean, "var": z_sd, "kurtosis": z_k, "skew": z_s, "autocorr": z_ac}}
        if abs(z_mean) > 6.5:
            res.violation("moments", "log-return-mean-differs-from-configured-drift", wit)
        elif abs(z_sd) > 6.5:
            res.violation("moments", "log-return-deviation-differs-from-configured-volatility", wit)
        elif abs(z_k) > 6.5 or abs(z_s) > 6.5:
            res.violation("moments", "log-returns-not-normally-distributed", wit)
        elif abs(z_ac) > 6.5:
            res.violation("moments", "log-returns-serially-correlated", wit)
    ids = [m["id"] for m in mk]
    want = {(a, b): c for a, b, c in case["corr"]}
    for i in ids:
        for j in ids:
            if i < j:
                rho = want.get((i, j), want.get((j, i), 0.0))
                got = float(np.corrcoef(R[i], R[j])[0, 1])
                z = (got - rho) / ((1 - rho * rho) / math.sqrt(N))
                res.maximum("max_abs_z_corr", round(abs(z), 2))
                if abs(z) > 6.5:
                    res.violation("moments", "log-return-correlation-differs-from-configured",
                                  {"pair": [i, j], "configured": rho, "sample": got, "z": z, "N": N})
    res.count("statistical_runs")
    res.count("statistical_log_returns", N * len(mk))
    res.seen(canon_hash([mk, case["corr"]]), True)


def run_case(case, res):
    import numpy as np

    with np.errstate(all="raise"):
        try:
            if case["kind"] == "config":
                run_config(case, res)
            elif case["kind"] == "stat":
                run_stat(case, res)
            else:
                run_walk(case, res)
        except FloatingPointError as e:
            res.violation("finite", "floating-point-error-while-generating-fundamentals", {"exc": repr(e)})
        except (IndexError, KeyError, TypeError, AttributeError, np.linalg.LinAlgError) as e:
            # every request of the walk that can be refused by design is made inside its own try block; an error of
            # these kinds that comes from inside the generator on an admissible request means that no value is delivered
            import traceback

            tb = traceback.extract_tb(e.__traceback__)
            if tb and tb[-1].filename.replace("\\", "/").endswith("pams/fundamentals.py"):
                res.violation("process", "fundamental-generation-raised-for-accepted-markets",
                              {"exc": repr(e), "where": "%s line %d" % (tb[-1].name, tb[-1].lineno),
                               "called_from": ["%s:%d" % (f.name, f.lineno) for f in tb if "/pamsmon/" in f.filename][-2:]})
            else:
                raise
