"""C03 - a matching round clears every executable pair and never fails."""
import sys

from .. import taps
from ..core import canon_hash
from ..direct import DirectRun, gen_deep_cancel_history, gen_history
from ..tracker import BookTracker

RULE = (
    "direct drive: continuous and batch histories with up to 30% market orders resting on one or both sides, "
    "crossed books accumulated while matching is off, one-sided books; plus runner drive. Case = one matching "
    "round; post-condition read from the public getters right after the round returned; premise as stated "
    "(books whose two best orders are both market orders are counted, not judged). distinct = hash(pre-round "
    "book); non-trivial = round entered with a crossed book or with a market order resting. Termination: the "
    "round must return within a budget of executed lines proportional to the book size (logical steps, not "
    "wall clock)."
    ' Since the seeded rounds: decimal-tick histories with frequent requests refused by design, forced rounds on a stopped market (refusal tolerated, market used normally afterwards).'
)
ASSUMPTIONS = [
    "a matching round is only requested while the market is running (what the runner does)",
    "line budget for termination: 20000 + 2000 n + 50 n^2 executed lines inside a round entered with n resting orders (observed maximum is reported as max_lines_per_budget_permille)",
]
REQUIRED = {
    "quick": {"rounds": 3000, "class/market_orders_both_sides_at_entry": 20, "class/round_exhausts_one_side": 100,
              "class/stopped_by_noncrossing_pair": 100, "class/noop_round": 500, "class/crossed_backlog_3plus": 30,
              "postconditions_evaluated": 2000},
    "thorough": {"rounds": 100000, "class/market_orders_both_sides_at_entry": 500,
                 "class/round_exhausts_one_side": 3000, "class/stopped_by_noncrossing_pair": 3000,
                 "class/noop_round": 10000, "class/crossed_backlog_3plus": 1000, "postconditions_evaluated": 50000},
}


def budget(tier):
    return 1600 if tier == "quick" else 50000


def gen_case(rng, tier, idx):
    if idx % 10 in (5, 6, 7, 8):
        c = gen_deep_cancel_history(rng, tier)
        c["drive"] = "direct"
        return c
    if idx % 10 == 9:
        from ..runnerdrive import gen_runner_case

        c = gen_runner_case(rng, tier, profile="matching", style="aggressive",
                            **({"n_spot": 2, "n_hft": 3, "with_index": False} if idx % 20 == 19 else {}))
        if idx % 20 == 19:
            # only high-frequency agents trade S0 (the normal agents, who give them their turns, trade S1), and order
            # mistake shocks hit S0: the order an event rewrites is a high-frequency agent's
            cfg = c["config"]
            for k, v in cfg.items():
                if isinstance(v, dict) and "program" in v and k != "H":
                    v["markets"] = ["S1"]
                    v["program"]["p_act"] = 1.0
            cfg["H"]["markets"] = ["S0", "S1"]
            cfg["H"]["program"]["p_act"] = 1.0
            ss = [s_ for s_ in cfg["simulation"]["sessions"] if s_["withOrderPlacement"] and s_["withOrderExecution"]]
            for s_ in ss:
                s_["maxHighFrequencyOrders"] = max(s_.get("maxHighFrequencyOrders", 1), 2)
                s_["highFrequencySubmitRate"] = 1.0
                s_["maxNormalOrders"] = max(s_.get("maxNormalOrders", 1), 2)
            for j, t in enumerate([0, 1, 2, 4]):
                cfg["OMS%d" % j] = {"class": "OrderMistakeShock", "target": "S0", "triggerTime": t,
                                    "priceChangeRate": rng.choice([-0.05, 0.05, -0.2]), "orderVolume": rng.choice([3, 7]),
                                    "orderTimeLength": rng.choice([2, 7, 30])}
                ss[0].setdefault("events", []).append("OMS%d" % j)
        elif idx % 20 == 9:
            # a trading halt rule that any fill trips, and agents that send several orders in one submission: the rule
            # switches matching off between two orders of one batch
            cfg = c["config"]
            cfg["HALT"] = {"class": "TradingHaltRule", "targetMarkets": list(cfg["simulation"]["markets"]),
                           "triggerChangeRate": rng.choice([0.0, 0.0, 0.002]), "haltingTimeLength": rng.choice([1, 2, 3])}
            cfg["simulation"]["sessions"][0].setdefault("events", []).append("HALT")
            for k, v in cfg.items():
                if isinstance(v, dict) and "program" in v:
                    v["program"]["max_batch"] = max(v["program"].get("max_batch", 1), 3)
                    v["program"]["p_act"] = 1.0
        return c
    if idx % 10 == 2:
        from ..direct import gen_deep_auction_history

        c = gen_deep_auction_history(rng, tier)
        c["drive"] = "direct"
        return c
    if idx % 10 == 3:
        from ..direct import gen_both_sides_market_history

        c = gen_both_sides_market_history(rng, tier)
        c["drive"] = "direct"
        return c
    prof = {}
    if idx % 10 == 4:
        # decimal ticks, few levels, frequent requests that are refused by design (resubmissions of resting
        # orders among them) between the normal ones
        prof.update({"tick": rng.choice([0.1, 0.01, 0.1, 0.001]), "base": rng.choice([3, 6, 12, 29, 100]),
                     "max_levels": 4, "p_refused": 0.2, "ttl_menu": [None, None, 5, 30],
                     "mode": rng.choice(["batch", "mixed", "mixed"]), "p_market": rng.choice([0.3, 0.5])})
    r = rng.random()
    if r < 0.35:
        prof["p_market"] = rng.choice([0.2, 0.3, 0.5])
    if rng.random() < 0.4:
        prof["mode"] = rng.choice(["batch", "mixed"])
    c = gen_history(rng, tier, prof)
    c["drive"] = "direct"
    return c


def sample_of(case):
    if case.get("drive") == "direct":
        return {"drive": "direct", "tick": case["tick"], "mode": case["mode"], "ops": case["ops"][:25]}
    return {"drive": "runner", "seed": case.get("seed"), "sessions": case["config"]["simulation"]["sessions"]}


class LineBudgetExceeded(BaseException):
    pass


class C03Monitor(BookTracker):
    def __init__(self, res):
        super().__init__()
        self.res = res
        self._budget = None
        self._lines = 0
        self._prev_trace = None

    # -- logical-step watchdog around the round -----------------------------
    def _tracer(self, frame, event, arg):
        if event == "line":
            self._lines += 1
            if self._lines > self._budget:
                sys.settrace(None)
                raise LineBudgetExceeded()
        return self._tracer

    def on_other(self, ev):
        k = ev["k"]
        if k == "exec_call":
            book = self.book(ev["mkt"])
            n = len(book.live)
            self._budget = 20000 + 2000 * n + 50 * n * n
            self._n = n
            self._lines = 0
            self._prev_trace = sys.gettrace()
            if self._prev_trace is None:
                sys.settrace(self._tracer)
                # the frame of the wrapper that called emit() is already running; trace the callee frames only

    def _stop_trace(self):
        if sys.gettrace() is self._tracer or self._prev_trace is None:
            sys.settrace(self._prev_trace)
        self.res.maximum("max_lines_in_round", self._lines)
        self.res.maximum("max_lines_per_budget_permille", int(1000 * self._lines / self._budget))

    def on_round_exc(self, ev, book, pre):
        self._stop_trace()
        res = self.res
        wit = {"pre_book": [so.brief() | {"rem": rem} for so, rem in sorted(pre.values(), key=lambda x: x[0].key())][:40],
               "exc": repr(ev["exc"]), "running": ev["running"]}
        if isinstance(ev["exc"], LineBudgetExceeded):
            res.violation("terminates", "matching-round-exceeded-its-step-budget", wit)
        elif not ev["running"]:
            res.count("round_refused_while_not_running(no claim)")
        else:
            res.violation("never-fails", "matching-round-raised-on-a-valid-book:" + type(ev["exc"]).__name__, wit)

    def on_round(self, ev, book, pre, fills):
        self._stop_trace()
        res = self.res
        mkt = ev["mkt"]
        res.count("rounds")
        pre_b = [x for x in pre.values() if x[0].is_buy]
        pre_s = [x for x in pre.values() if not x[0].is_buy]
        # ---- post-condition on the public getters ------------------------------
        bb = mkt.get_buy_order_book()
        sb = mkt.get_sell_order_book()
        bbp = mkt.get_best_buy_price()
        bsp = mkt.get_best_sell_price()
        both_nonempty = len(bb) > 0 and len(sb) > 0
        top_b_market = len(bb) > 0 and next(iter(bb)) is None
        top_s_market = len(sb) > 0 and next(iter(sb)) is None
        cls = []
        if both_nonempty:
            if top_b_market and top_s_market:
                res.count("both_best_are_market_orders_after_round(outside premise)")
            else:
                res.count("postconditions_evaluated")
                ok = (not top_b_market) and (not top_s_market) and bbp is not None and bsp is not None and bbp < bsp
                # the depth views are sorted by price: their first keys are best prices too
                ok = ok and next(iter(bb)) < next(iter(sb))
                if not ok:
                    res.violation(
                        "clears", "executable-pair-left-after-round",
                        {"best_buy": bbp, "best_sell": bsp, "buy_book": list(bb.items())[:10],
                         "sell_book": list(sb.items())[:10], "fills": [taps.snap_log(l) for l, _, _ in fills][:20],
                         "pre_book": [so.brief() | {"rem": rem} for so, rem in sorted(pre.values(), key=lambda x: x[0].key())][:40]},
                    )
                else:
                    if fills:
                        cls.append("stopped_by_noncrossing_pair")
        else:
            if fills:
                cls.append("round_exhausts_one_side")
        # shadow cross-check of the same post-condition (independent of the getters)
        sbest_b, sbest_s = book.best(True), book.best(False)
        if sbest_b is not None and sbest_s is not None and not (sbest_b.is_market and sbest_s.is_market):
            if sbest_b.is_market or sbest_s.is_market or not (sbest_b.price < sbest_s.price):
                if not any(v["mechanism"] == "executable-pair-left-after-round" for v in res.violations):
                    res.violation("clears", "executable-pair-left-after-round(shadow)",
                                  {"best_buy": sbest_b.brief(), "best_sell": sbest_s.brief()})
        # ---- classes ---------------------------------------------------------------
        if not fills:
            cls.append("noop_round")
        if any(so.is_market for so, _ in pre_b) and any(so.is_market for so, _ in pre_s):
            cls.append("market_orders_both_sides_at_entry")
        crossed_pairs = 0
        if pre_b and pre_s:
            lim_s = [so.price for so, _ in pre_s if not so.is_market]
            lim_b = [so.price for so, _ in pre_b if not so.is_market]
            if lim_s and lim_b:
                ms = min(lim_s)
                crossed_pairs = sum(1 for p in lim_b if p >= ms)
        if crossed_pairs >= 3 and len(fills) >= 3:
            cls.append("crossed_backlog_3plus")
        for c in set(cls):
            res.count("class/" + c)
        nontrivial = crossed_pairs >= 1 or any(so.is_market for so, _ in pre.values())
        res.seen(canon_hash(sorted((so.is_buy, so.is_market, so.price, rem, so.placed_at) for so, rem in pre.values())),
                 nontrivial)


def run_case(case, res):
    taps.install()
    mon = C03Monitor(res)
    if case.get("drive") == "runner":
        from ..runnerdrive import run_runner_case

        try:
            out = run_runner_case(case, [mon.on_event])
        finally:
            sys.settrace(None)
        if out.error is not None:
            # an exception on a valid workload that did not come from the round itself
            res.count("runner_case_aborted_outside_round:" + type(out.error).__name__)
        return
    run = DirectRun(case)
    taps.add_sink(mon.on_event)

    def on_exc(i, op, e):
        res.count("op_raised:" + type(e).__name__)
        return "stop"

    try:
        try:
            run.run(on_op_exc=on_exc)
        except LineBudgetExceeded:
            pass
    finally:
        sys.settrace(None)
        taps.remove_sink(mon.on_event)
