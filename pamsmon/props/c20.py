"""C20 - built-in agents emit well-formed orders that follow their documented strategy."""
import math
import random

from ..core import canon_hash

RULE = (
    "controlled market states built by direct drive on real markets (price paths set by unit trades on the tick "
    "grid, resting quotes, fundamentals from the real generator, index/component gaps placed at 0.5x, 0.999x, "
    "1.001x and 2x the arbitrage threshold on both sides), then submit_orders of freshly set-up FCN (fixed and "
    "normal margin), MarketShareFCN, MarketMaker and Arbitrage agents whose PRNG is a recording subclass of "
    "random.Random. Reference formulas re-derived from the docstrings / statement use the recorded normal draws "
    "(rel 1e-9; |expected - price| < 1e-9 price skipped). Case = one (agent parameters, market state) evaluation; "
    "distinct = hash(class, parameters, state digest); non-trivial = the agent emitted an order or stood at a "
    "threshold decision."
)
ASSUMPTIONS = [
    "agent parameters are read from the public attributes the agents document (fundamental_weight, ...)",
    "FCN noise is one normal draw from the agent's own generator per consulted market (any of gauss / normalvariate)",
]
REQUIRED = {
    "quick": {"evaluations/FCNAgent": 1500, "evaluations/MarketShareFCNAgent": 500, "evaluations/MarketMakerAgent": 800,
              "evaluations/ArbitrageAgent": 300, "class/fcn_buy": 400, "class/fcn_sell": 400,
              "class/fcn_normal_margin": 300, "class/mm_base_from_quotes": 200, "class/mm_base_from_market_price": 100,
              "class/arb_inside_threshold": 150, "class/arb_gap_equals_threshold": 25, "class/arb_outside_threshold_index_cheap": 55,
              "class/arb_outside_threshold_index_rich": 55, "class/arb_near_threshold": 100,
              "orders_checked_wellformed": 3000, "class/share_choice_checked": 300,
              "class/mm_handed_only_part_of_the_markets": 300,
              "class/arb_two_indices_sharing_components:2_outside_the_threshold": 8,
              "class/fcn_expected_price_equals_market_price": 40},
    "thorough": {"evaluations/FCNAgent": 60000, "evaluations/MarketShareFCNAgent": 15000,
                 "evaluations/MarketMakerAgent": 24000, "evaluations/ArbitrageAgent": 12000, "class/fcn_buy": 12000,
                 "class/fcn_sell": 12000, "class/fcn_normal_margin": 9000, "class/mm_base_from_quotes": 6000,
                 "class/mm_base_from_market_price": 3000, "class/arb_inside_threshold": 4500,
                 "class/arb_gap_equals_threshold": 700, "class/arb_outside_threshold_index_cheap": 2400, "class/arb_outside_threshold_index_rich": 2400,
                 "class/arb_near_threshold": 3000, "orders_checked_wellformed": 90000,
                 "class/share_choice_checked": 9000, "class/mm_handed_only_part_of_the_markets": 9000,
                 "class/arb_two_indices_sharing_components:2_outside_the_threshold": 2000,
                 "class/fcn_expected_price_equals_market_price": 10000},
}


def budget(tier):
    return 240 if tier == "quick" else 108000


class RecordingRandom(random.Random):
    """the agent's own generator, recording what it hands out."""

    def __init__(self, seed):
        super().__init__(seed)
        self.log = []

    def gauss(self, mu=0.0, sigma=1.0):
        v = super().gauss(mu, sigma)
        self.log.append(("normal", mu, sigma, v))
        return v

    def normalvariate(self, mu=0.0, sigma=1.0):
        v = super().normalvariate(mu, sigma)
        self.log.append(("normal", mu, sigma, v))
        return v

    def random(self):
        v = super().random()
        self.log.append(("uniform", None, None, v))
        return v

    def choices(self, population, weights=None, *, cum_weights=None, k=1):
        v = super().choices(population, weights, cum_weights=cum_weights, k=k)
        self.log.append(("choices", list(population), None if weights is None else list(weights), v))
        return v

    def choice(self, seq):
        v = super().choice(seq)
        self.log.append(("choice", list(seq), None, v))
        return v


def gen_case(rng, tier, idx):
    n_spot = rng.choice([1, 2, 3])
    ticks = [rng.choice([1.0, 0.5, 0.1, 0.01, 10.0]) for _ in range(n_spot)]
    return {
        "seed": rng.randrange(1 << 30),
        "n_spot": n_spot,
        "ticks": ticks,
        "levels": [rng.choice([100, 400, 2500]) for _ in range(n_spot)],
        "with_index": n_spot >= 2 and rng.random() < 0.7,
        "steps": rng.choice([0, 1, 3, 10, 40, 120]),
        "vol": rng.choice([0.0, 0.005, 0.03]),
        "evals": 25,
        # every sixth world with three spot markets has two index markets that share a component
        "second_index": idx % 6 == 1,
    }


def sample_of(case):
    return {k: v for k, v in case.items() if k != "_idx"}


def close(a, b, rel=1e-9):
    return a == b or abs(a - b) <= rel * max(abs(a), abs(b))


# ---------------------------------------------------------------------------
# building market states on real objects
# ---------------------------------------------------------------------------
class World:
    def __init__(self, case):
        from pams.index_market import IndexMarket
        from pams.market import Market
        from pams.simulator import Simulator

        self.rng = random.Random(case["seed"])
        self.sim = Simulator(prng=random.Random(case["seed"] + 1))
        self.spots = []
        for i in range(case["n_spot"]):
            m = Market(market_id=i, prng=random.Random(i), simulator=self.sim, name="S%d" % i)
            p0 = case["levels"][i] * case["ticks"][i]
            m.setup({"tickSize": case["ticks"][i], "marketPrice": p0, "outstandingShares": 1000})
            self.sim._add_market(m, group_name="S%d" % i)
            self.sim.fundamentals.add_market(market_id=i, initial=p0 * self.rng.choice([0.8, 1.0, 1.3]),
                                             drift=0.0, volatility=case["vol"])
            self.spots.append(m)
        self.index = None
        if case["with_index"]:
            im = IndexMarket(market_id=case["n_spot"], prng=random.Random(99), simulator=self.sim, name="IDX")
            p = sum(case["levels"][i] * case["ticks"][i] for i in range(case["n_spot"])) / case["n_spot"]
            im.setup({"tickSize": self.rng.choice([1.0, 0.5, 0.01]), "marketPrice": p, "markets": [s.name for s in self.spots],
                      "outstandingShares": 1000})
            self.sim._add_market(im, group_name="IDX")
            self.index = im
        self.index2 = None
        if case.get("second_index") and self.index is not None and case["n_spot"] >= 3:
            im2 = IndexMarket(market_id=case["n_spot"] + 1, prng=random.Random(98), simulator=self.sim, name="IDX2")
            part = self.spots[1:]
            p2 = sum(case["levels"][i] * case["ticks"][i] for i in range(1, case["n_spot"])) / len(part)
            im2.setup({"tickSize": self.rng.choice([1.0, 0.5]), "marketPrice": p2, "markets": [s_.name for s_ in part],
                       "outstandingShares": 1000})
            self.sim._add_market(im2, group_name="IDX2")
            self.index2 = im2
        self.markets = list(self.sim.markets)
        self.sim._update_times_on_markets(self.markets)
        for m in self.markets:
            m._is_running = True
        self.oid_agent = 900

    def trade_at(self, m, price, vol=1):
        """make the market trade (and hence be priced) at an on-grid price."""
        from pams.order import LIMIT_ORDER, Order

        # clear anything that would trade first: use a fresh pair at the exact price, taker second
        s = Order(agent_id=self.oid_agent, market_id=m.market_id, is_buy=False, kind=LIMIT_ORDER, volume=vol, price=price, ttl=1)
        b = Order(agent_id=self.oid_agent, market_id=m.market_id, is_buy=True, kind=LIMIT_ORDER, volume=vol, price=price, ttl=1)
        m._add_order(s)
        m._execution()
        m._add_order(b)
        m._execution()

    def quote(self, m, bid, ask, ttl=3):
        from pams.order import LIMIT_ORDER, Order

        if bid is not None:
            m._add_order(Order(agent_id=self.oid_agent, market_id=m.market_id, is_buy=True, kind=LIMIT_ORDER, volume=1, price=bid, ttl=ttl))
            m._execution()
        if ask is not None:
            m._add_order(Order(agent_id=self.oid_agent, market_id=m.market_id, is_buy=False, kind=LIMIT_ORDER, volume=1, price=ask, ttl=ttl))
            m._execution()

    def step(self):
        rng = self.rng
        for m in self.markets:
            tick = m.tick_size
            lvl = round(m.get_market_price() / tick)
            r = rng.random()
            if r < 0.6:
                lvl2 = max(2, lvl + rng.randint(-5, 5))
                self.trade_at(m, lvl2 * tick, vol=rng.randint(1, 4))
            if rng.random() < 0.5:
                lvl = round(m.get_market_price() / tick)
                d1, d2 = rng.randint(1, 6), rng.randint(1, 6)
                self.quote(m, max(1, lvl - d1) * tick if rng.random() < 0.8 else None,
                           (lvl + d2) * tick if rng.random() < 0.8 else None, ttl=rng.choice([1, 2, 5]))
        self.sim._update_times_on_markets(self.markets)


# ---------------------------------------------------------------------------
# well-formedness
# ---------------------------------------------------------------------------
def wellformed(res, agent, orders, cls):
    from pams.order import LIMIT_ORDER, MARKET_ORDER, Cancel, Order

    ok = True
    for o in orders:
        res.count("orders_checked_wellformed")
        if isinstance(o, Cancel):
            continue
        bad = None
        if not isinstance(o, Order):
            bad = "not-an-order"
        elif o.agent_id != agent.agent_id:
            bad = "foreign-agent-id"
        elif not agent.is_market_accessible(o.market_id):
            bad = "inaccessible-market"
        elif not isinstance(o.volume, int) or isinstance(o.volume, bool) or o.volume <= 0:
            bad = "non-positive-or-non-integer-volume"
        elif o.ttl is not None and (not isinstance(o.ttl, int) or o.ttl <= 0):
            bad = "non-positive-ttl"
        elif o.kind == LIMIT_ORDER and (o.price is None or not math.isfinite(o.price)):
            bad = "limit-order-without-finite-price"
        elif o.kind == MARKET_ORDER and o.price is not None:
            bad = "market-order-with-price"
        elif o.kind not in (LIMIT_ORDER, MARKET_ORDER):
            bad = "unknown-kind"
        elif o.placed_at is not None or o.order_id is not None or o.is_canceled:
            bad = "order-already-stamped"
        if bad:
            ok = False
            res.violation("well-formed", "built-in-agent-emitted-malformed-order:" + bad,
                          {"agent_class": cls, "order": repr(o)})
    return ok


# ---------------------------------------------------------------------------
# FCN
# ---------------------------------------------------------------------------
def fcn_settings(rng, margin_type):
    def val(x):
        r = rng.random()
        if r < 0.5:
            return x
        if r < 0.75:
            return {"const": [x]}
        return {"uniform": [x * 0.5, x * 1.5]} if x > 0 else x

    s = {
        "cashAmount": 10000, "assetVolume": 50,
        "fundamentalWeight": val(rng.choice([0.0, 1.0, 5.0])),
        "chartWeight": val(rng.choice([0.0, 0.5, 2.0])),
        "noiseWeight": val(rng.choice([0.0, 1.0, 3.0])),
        "noiseScale": val(rng.choice([0.0, 0.001, 0.01])),
        "timeWindowSize": rng.choice([1, 5, 30, 100, [10, 60]]),
        "orderMargin": val(rng.choice([0.0, 0.01, 0.1, 0.5])) if margin_type != "normal" else val(rng.choice([0.0, 0.5, 3.0])),
    }
    if margin_type is not None:
        s["marginType"] = margin_type
    if rng.random() < 0.4:
        s["meanReversionTime"] = rng.choice([1, 20, 200])
    return s


def fcn_expected(agent, market, z):
    t = market.get_time()
    tw = min(t, agent.time_window_size)
    p = market.get_market_price()
    # the documented default of the mean-reversion time is the agent's OWN (already drawn) window size
    mrt = getattr(agent, "_configured_mrt", None)
    if mrt is None:
        mrt = agent.time_window_size
    F = (1.0 / max(mrt, 1)) * math.log(market.get_fundamental_price() / p)
    C = (1.0 / max(tw, 1)) * math.log(p / market.get_market_price(t - tw))
    N = agent.noise_scale * z
    w = agent.fundamental_weight + agent.chart_weight + agent.noise_weight
    sign = 1 if getattr(agent, "is_chart_following", True) else -1
    r = (agent.fundamental_weight * F + agent.chart_weight * C * sign + agent.noise_weight * N) / w
    return p * math.exp(r * agent.time_window_size)


def check_fcn_orders(res, agent, market, orders, draws, cls, wit):
    """orders: those for this market; draws: recorded normal draws (in order) made for this market."""
    from pams.order import LIMIT_ORDER

    p = market.get_market_price()
    zs = [d[3] for d in draws if d[0] == "normal"]
    # the noise draw is a N(0,1) draw (scaled by the agent) - find the expected price among the recorded draws
    cands = []
    for i, z in enumerate(zs):
        unit = z if draws[i][2] in (1, 1.0) else (z - draws[i][1]) / draws[i][2] if draws[i][2] else 0.0
        try:
            cands.append((i, fcn_expected(agent, market, unit)))
        except (ValueError, ZeroDivisionError, OverflowError):
            pass
    if not cands:
        try:
            cands = [(-1, fcn_expected(agent, market, 0.0))] if agent.noise_weight == 0 or agent.noise_scale == 0 else []
        except (ValueError, ZeroDivisionError, OverflowError):
            cands = []
    if not cands:
        res.count("fcn_no_noise_draw_recorded(not judged)")
        return
    normal_mode = getattr(agent, "margin_type", 0) == 1
    for i, e in cands:
        if abs(e - p) < 1e-9 * p:
            res.count("fcn_expected_equals_price(skipped)")
            return
    ok_any = False
    why = None
    for i, e in cands:
        want_buy = e > p
        if len(orders) != 1:
            why = {"reason": "expected exactly one order", "n": len(orders), "expected_price": e, "market_price": p}
            continue
        o = orders[0]
        if o.kind != LIMIT_ORDER or o.is_buy != want_buy or o.volume != 1 or o.ttl != agent.time_window_size:
            why = {"reason": "side/kind/volume/ttl", "order": repr(o), "expected_price": e, "market_price": p}
            continue
        if not normal_mode:
            want = e * (1 - agent.order_margin) if want_buy else e * (1 + agent.order_margin)
            if close(o.price, want):
                ok_any = True
                break
            why = {"reason": "price", "order_price": o.price, "expected": want, "expected_future_price": e, "margin": agent.order_margin}
        else:
            others = [z for j, z in enumerate(zs) if j != i]
            if any(close(o.price, e + z2 * agent.order_margin) for z2 in others) or (agent.order_margin == 0 and close(o.price, e)):
                ok_any = True
                break
            why = {"reason": "price(normal margin)", "order_price": o.price, "expected_future_price": e}
    if ok_any:
        res.count("class/fcn_buy" if orders[0].is_buy else "class/fcn_sell")
        if normal_mode:
            res.count("class/fcn_normal_margin")
    else:
        mech = "fcn-order-does-not-follow-expected-price-rule"
        if why and why.get("reason") == "side/kind/volume/ttl":
            mech = "fcn-side-or-shape-differs-from-sign-of-expected-minus-price"
        elif why and why.get("reason", "").startswith("price"):
            mech = "fcn-price-is-not-expected-price-shaded-by-margin"
        res.violation("fcn", mech, dict(wit, why=why, params={
            "wF": agent.fundamental_weight, "wC": agent.chart_weight, "wN": agent.noise_weight,
            "noise_scale": agent.noise_scale, "window": agent.time_window_size, "mrt": agent.mean_reversion_time,
            "margin": agent.order_margin, "margin_type": agent.margin_type}))


def eval_fcn(res, world, rng, share):
    from pams.agents import FCNAgent, MarketShareFCNAgent

    cls = MarketShareFCNAgent if share else FCNAgent
    name = cls.__name__
    prng = RecordingRandom(rng.randrange(1 << 30))
    a = cls(agent_id=rng.randint(0, 50), prng=prng, simulator=world.sim, name="a")
    mt = rng.choice([None, "fixed", "fixed", "normal"])
    st = fcn_settings(rng, mt)
    tie = (not share) and rng.random() < 0.06
    if tie:
        # a state in which the expected future price EQUALS the market price: no noise, no chart term, and (below) a
        # fundamental price equal to the market price - the agent must neither buy nor sell
        st.update({"noiseWeight": 0.0, "chartWeight": 0.0, "fundamentalWeight": rng.choice([1.0, 5.0])})
    acc = [m.market_id for m in world.markets if rng.random() < 0.8] or [world.markets[0].market_id]
    try:
        a.setup(settings=st, accessible_markets_ids=acc)
        a._configured_mrt = st.get("meanReversionTime")
    except Exception as e:  # noqa
        res.violation("setup", "admissible-agent-settings-refused", {"class": name, "settings": st, "exc": repr(e)})
        return
    if rng.random() < 0.15:
        a.is_chart_following = False     # contrarian mode (public attribute, e.g. set by a user subclass)
        res.count("class/fcn_contrarian")
    if a.fundamental_weight + a.chart_weight + a.noise_weight <= 0:
        res.count("fcn_zero_weight_sum(not admissible)")
        return
    saved_f = {}
    if tie:
        for m in world.markets:
            t_ = m.get_time()
            saved_f[m.market_id] = (m, t_, m._fundamental_prices[t_])
            m._fundamental_prices[t_] = m.get_market_price()
    del prng.log[:]
    res.count("evaluations/" + name)
    wit = {"class": name, "settings": st, "accessible": acc, "time": world.markets[0].get_time(), "tie_state": tie}
    try:
        orders = a.submit_orders(markets=world.markets)
    except AssertionError as e:
        # the agent's own asserts (e.g. negative normal-margin price) are part of its documented domain
        res.count("fcn_own_assert(not judged)")
        return
    except Exception as e:  # noqa
        res.violation("fcn", "built-in-agent-raised-on-admissible-state", dict(wit, exc=repr(e)))
        return
    finally:
        for m_, t_, f_ in saved_f.values():
            m_._fundamental_prices[t_] = f_
    if tie:
        res.count("class/fcn_expected_price_equals_market_price")
        if orders:
            res.violation("fcn", "fcn-ordered-although-expected-price-equals-market-price",
                          dict(wit, orders=[repr(o) for o in orders]))
        return
    if not wellformed(res, a, orders, name):
        return
    log = list(prng.log)
    if share:
        ch = [x for x in log if x[0] in ("choices", "choice")]
        accm = [m for m in world.markets if a.is_market_accessible(m.market_id)]
        mk_ids = {o.market_id for o in orders}
        if len(mk_ids) > 1:
            res.violation("share", "market-share-agent-ordered-on-several-markets", dict(wit, markets=sorted(mk_ids)))
            return
        if len(ch) == 1 and ch[0][0] == "choices" and ch[0][2] is not None:
            pop, w, picked = ch[0][1], ch[0][2], ch[0][3][0]
            t = picked.get_time()
            exp_w = []
            for m in pop:
                t0 = max(0, t - a.time_window_size)
                exp_w.append(float(sum(m.get_executed_volumes(range(t0, t + 1)))))
            res.count("class/share_choice_checked")
            if [m.market_id for m in pop] != [m.market_id for m in accm] or any(abs(x - y) > 1e-6 for x, y in zip(w, exp_w)):
                res.violation("share", "market-choice-weights-are-not-recent-traded-volumes",
                              dict(wit, weights=w, expected=exp_w))
                return
            if mk_ids and mk_ids != {picked.market_id}:
                res.violation("share", "market-share-agent-ordered-on-a-market-it-did-not-choose", wit)
                return
            draws = [x for x in log if x[0] == "normal"]
            check_fcn_orders(res, a, picked, orders, draws, name, wit)
        else:
            # the choice was not made through random.choices: judge it from the uniform draws the agent took.
            # A market is picked with probability proportional to its recent traded volume, i.e. for a draw u the
            # pick is the first market whose cumulative weight exceeds u * total.
            us = [x[3] for x in log if x[0] == "uniform"]
            if not us or not mk_ids:
                res.count("share_choice_not_observable(not judged)")
                return
            t = accm[0].get_time()
            w = []
            for m in accm:
                t0 = max(0, t - a.time_window_size)
                w.append(float(sum(m.get_executed_volumes(range(t0, t + 1)))) + 1e-10)
            tot = sum(w)
            picks = set()
            for u in us:
                acc_w = 0.0
                pick = accm[-1]
                for m, wi in zip(accm, w):
                    acc_w += wi
                    if u * tot < acc_w:
                        pick = m
                        break
                picks.add(pick.market_id)
            res.count("class/share_choice_checked")
            if not (mk_ids <= picks):
                res.violation("share", "market-choice-not-proportional-to-recent-traded-volumes",
                              dict(wit, ordered_on=sorted(mk_ids), picks_by_draw=sorted(picks), weights=w, draws=us[:4]))
                return
            picked = [m for m in accm if m.market_id in mk_ids][0]
            draws = [x for x in log if x[0] == "normal"]
            check_fcn_orders(res, a, picked, orders, draws, name, wit)
        return
    # plain FCN: one decision per accessible market, in the order of `markets`
    normals = [x for x in log if x[0] == "normal"]
    accm = [m for m in world.markets if a.is_market_accessible(m.market_id)]
    per = 2 if a.margin_type == 1 else 1
    if len(normals) != per * len(accm):
        res.count("fcn_draw_count_unexpected(not judged)")
        return
    for i, m in enumerate(accm):
        mine = [o for o in orders if o.market_id == m.market_id]
        check_fcn_orders(res, a, m, mine, normals[per * i: per * i + per], name, dict(wit, market=m.name))
    extra = [o for o in orders if o.market_id not in {m.market_id for m in accm}]
    if extra:
        res.violation("well-formed", "built-in-agent-emitted-malformed-order:inaccessible-market", wit)


# ---------------------------------------------------------------------------
# market maker
# ---------------------------------------------------------------------------
def eval_mm(res, world, rng):
    from pams.agents import MarketMakerAgent
    from pams.order import LIMIT_ORDER

    prng = RecordingRandom(rng.randrange(1 << 30))
    a = MarketMakerAgent(agent_id=rng.randint(0, 50), prng=prng, simulator=world.sim, name="mm")
    target = rng.choice(world.markets)
    acc = sorted({target.market_id} | {m.market_id for m in world.markets if rng.random() < 0.5})
    theta = rng.choice([0.0, 0.001, 0.02, 0.3])
    st = {"cashAmount": 1000, "assetVolume": 10, "targetMarket": target.name,
          "netInterestSpread": rng.choice([theta, {"const": [theta]}])}
    otl = None
    if rng.random() < 0.6:
        otl = rng.choice([1, 3, 10])
        st["orderTimeLength"] = otl
    try:
        a.setup(settings=st, accessible_markets_ids=acc)
    except Exception as e:  # noqa
        res.violation("setup", "admissible-agent-settings-refused", {"class": "MarketMakerAgent", "settings": st, "exc": repr(e)})
        return
    res.count("evaluations/MarketMakerAgent")
    if _mm_consult(res, world, a, target, acc, theta, otl, st, "first") and rng.random() < 0.5:
        # the same agent is asked again in the same step (a high-frequency agent is consulted after every normal
        # batch) after the quotes of one of its markets have moved
        m2 = world.markets[acc[rng.randrange(len(acc))]] if all(i < len(world.markets) for i in acc) else target
        bb, ba = m2.get_best_buy_price(), m2.get_best_sell_price()
        t_ = m2.tick_size
        if bb is not None and ba is not None and ba - bb > 4 * t_:
            if rng.random() < 0.5:
                world.quote(m2, bb + rng.randint(1, 2) * t_, None)
            else:
                world.quote(m2, None, ba - rng.randint(1, 2) * t_)
            res.count("class/mm_asked_again_in_the_same_step_after_quotes_moved")
            _mm_consult(res, world, a, target, acc, theta, otl, st, "second-in-step")
    if len(world.markets) >= 2:
        others = [m for m in world.markets if m is not target]
        sub = [target] + [m for m in others if hash((m.market_id, target.get_time())) % 2 == 0][: len(others) - 1]
        order_ = sub if target.get_time() % 2 == 0 else sub[::-1]
        res.count("class/mm_handed_only_part_of_the_markets")
        _mm_consult(res, world, a, target, acc, theta, otl, st, "handed-a-sublist", offered=order_)


def _mm_consult(res, world, a, target, acc, theta, otl, st, which, offered=None):
    from pams.order import LIMIT_ORDER

    wit = {"class": "MarketMakerAgent", "settings": st, "accessible": acc, "time": target.get_time(), "consultation": which}
    all_markets = world.markets
    if offered is not None:
        # the agent is handed only part of the markets (a user runner, or a subclass that narrows the list before
        # delegating): its base price is the one of the markets it was handed
        wit["offered"] = [m.market_id for m in offered]

        class _W:
            markets = offered

        world = _W
    try:
        orders = a.submit_orders(markets=list(world.markets))
    except Exception as e:  # noqa
        res.violation("mm", "built-in-agent-raised-on-admissible-state", dict(wit, exc=repr(e)))
        return False
    if not wellformed(res, a, orders, "MarketMakerAgent"):
        return False
    bids = [m.get_best_buy_price() for m in world.markets if m.market_id in acc and m.get_best_buy_price() is not None]
    asks = [m.get_best_sell_price() for m in world.markets if m.market_id in acc and m.get_best_sell_price() is not None]
    if bids and asks:
        base = (max(bids) + min(asks)) / 2.0
        res.count("class/mm_base_from_quotes")
    else:
        base = target.get_market_price()
        res.count("class/mm_base_from_market_price")
    half = target.get_fundamental_price() * theta * 0.5
    buys = [o for o in orders if o.is_buy]
    sells = [o for o in orders if not o.is_buy]
    wit.update({"base": base, "half_spread": half, "orders": [repr(o) for o in orders]})
    if len(orders) != 2 or len(buys) != 1 or len(sells) != 1 or any(o.market_id != target.market_id for o in orders) \
            or any(o.kind != LIMIT_ORDER for o in orders):
        res.violation("mm", "market-maker-does-not-quote-one-buy-and-one-sell-on-its-target", wit)
        return False
    b, s = buys[0], sells[0]
    scale = max(abs(base), 1e-12)
    if abs((s.price - b.price) - 2 * half) > 1e-9 * scale:
        res.violation("mm", "market-maker-quotes-not-separated-by-fundamental-times-spread", wit)
    elif abs((s.price + b.price) / 2.0 - base) > 1e-9 * scale:
        res.violation("mm", "market-maker-quotes-not-symmetric-around-base-price", wit)
    exp_ttl = otl if otl is not None else 2
    if b.ttl != s.ttl:
        res.violation("mm", "market-maker-quotes-have-different-lifetimes", wit)
    elif otl is not None and b.ttl != exp_ttl:
        res.violation("mm", "market-maker-lifetime-differs-from-orderTimeLength", wit)
    return True


# ---------------------------------------------------------------------------
# arbitrage
# ---------------------------------------------------------------------------
def eval_arb(res, world, rng):
    from pams.agents import ArbitrageAgent
    from pams.order import LIMIT_ORDER

    im = world.index
    comps = im.get_components()
    # place the index price relative to the computed index
    computed = im.get_index()
    tick = im.tick_size
    side = rng.choice([-1, 1])
    k = rng.randint(1, 40)
    lvl = max(1, round(computed / tick) + side * k)
    world.trade_at(im, lvl * tick)
    computed = im.get_index()
    price = im.get_market_price()
    gap = price - computed
    if gap == 0:
        res.count("arb_zero_gap(skipped)")
        return
    factor = rng.choice([0.5, 0.9, 0.999, 0.999999, 1.0, 1.000001, 1.001, 1.1, 2.0, 10.0])
    thr = abs(gap) * factor          # gap > thr  <=>  factor < 1
    v = rng.choice([1, 2, 7])
    a = ArbitrageAgent(agent_id=rng.randint(0, 50), prng=RecordingRandom(1), simulator=world.sim, name="arb")
    acc = [m.market_id for m in world.markets]
    st = {"cashAmount": 1000, "assetVolume": 10, "orderVolume": v, "orderThresholdPrice": thr}
    otl = None
    if rng.random() < 0.5:
        otl = rng.choice([1, 4])
        st["orderTimeLength"] = otl
    try:
        a.setup(settings=st, accessible_markets_ids=acc)
    except Exception as e:  # noqa
        res.violation("setup", "admissible-agent-settings-refused", {"class": "ArbitrageAgent", "settings": st, "exc": repr(e)})
        return
    stopped = None
    if rng.random() < 0.1:
        stopped = rng.choice([im] + list(comps))
        stopped._is_running = False
    res.count("evaluations/ArbitrageAgent")
    wit = {"class": "ArbitrageAgent", "settings": st, "index_price": price, "computed_index": computed, "gap": gap,
           "threshold": thr, "n_components": len(comps), "stopped_market": getattr(stopped, "name", None)}
    try:
        orders = a.submit_orders(markets=world.markets)
    except Exception as e:  # noqa
        res.violation("arb", "built-in-agent-raised-on-admissible-state", dict(wit, exc=repr(e)))
        return
    finally:
        if stopped is not None:
            stopped._is_running = True
    if not wellformed(res, a, orders, "ArbitrageAgent"):
        return
    wit["orders"] = [repr(o) for o in orders]
    if factor == 1.0 and thr == abs(gap) and stopped is None:
        # the gap equals the threshold exactly (the difference of two floats is exact in either direction):
        # "differ by more than its threshold" is false, the agent must stay silent
        res.count("class/arb_gap_equals_threshold")
        if orders:
            res.violation("arb", "arbitrage-agent-acted-inside-its-threshold", dict(wit, gap_equals_threshold=True))
        return
    if abs(abs(gap) - thr) <= 1e-9 * abs(gap) and factor not in (0.999999, 1.000001):
        res.count("arb_on_threshold(skipped)")
        return
    if 0.99 < factor < 1.01:
        res.count("class/arb_near_threshold")
    outside = abs(gap) > thr
    if stopped is not None:
        # the statement says nothing about *whether* the agent acts while a market is stopped (observed, not
        # judged); but whatever it sends has to be the complete hedged basket
        res.count("arb_market_not_running:%s(decision not judged)" % ("acted" if orders else "no action"))
        if orders:
            n_ = len(comps)
            io_ = [o for o in orders if o.market_id == im.market_id]
            co_ = [o for o in orders if o.market_id != im.market_id]
            if not (len(io_) == 1 and len(co_) == n_ and io_[0].volume == n_ * v
                    and sorted(o.market_id for o in co_) == sorted(c.market_id for c in comps)
                    and all(o.volume == v and o.is_buy == (not io_[0].is_buy) for o in co_)):
                res.violation("arb", "arbitrage-basket-is-not-index-n-times-v-against-components-v", wit)
        return
    if not outside:
        res.count("class/arb_inside_threshold")
        if orders:
            res.violation("arb", "arbitrage-agent-acted-inside-its-threshold", wit)
        return
    res.count("class/arb_outside_threshold_index_cheap" if gap < 0 else "class/arb_outside_threshold_index_rich")
    if not orders:
        res.violation("arb", "arbitrage-agent-did-not-act-outside-its-threshold", wit)
        return
    n = len(comps)
    io = [o for o in orders if o.market_id == im.market_id]
    co = [o for o in orders if o.market_id != im.market_id]
    index_buy = gap < 0     # index cheaper than its components: buy the index, sell the components
    ok = (len(io) == 1 and len(co) == n and io[0].volume == n * v and io[0].is_buy == index_buy
          and sorted(o.market_id for o in co) == sorted(c.market_id for c in comps)
          and all(o.volume == v and o.is_buy == (not index_buy) for o in co)
          and all(o.kind == LIMIT_ORDER for o in orders))
    if not ok:
        res.violation("arb", "arbitrage-basket-is-not-index-n-times-v-against-components-v", wit)
        return
    if otl is not None and any(o.ttl != otl for o in orders):
        res.violation("arb", "arbitrage-order-lifetime-differs-from-orderTimeLength", wit)


def eval_arb_two(res, world, rng):
    """two index markets that share components: the agent's answer is the hedged basket of every index outside the
    threshold - the baskets side by side, none of their orders missing."""
    from pams.agents import ArbitrageAgent

    v = rng.choice([1, 2, 5])
    gaps = {}
    for im in (world.index, world.index2):
        computed = im.get_index()
        tick = im.tick_size
        lvl = max(1, round(computed / tick) + rng.choice([-1, 1]) * rng.randint(5, 40))
        world.trade_at(im, lvl * tick)
    for im in (world.index, world.index2):
        gaps[im.market_id] = im.get_market_price() - im.get_index()
    if any(g == 0 for g in gaps.values()):
        return
    small = min(abs(g) for g in gaps.values())
    thr = small * rng.choice([0.5, 0.5, 2.0]) if rng.random() < 0.8 else max(abs(g) for g in gaps.values()) * 3.0
    if any(abs(abs(g) - thr) <= 1e-6 * abs(g) for g in gaps.values()):
        return
    a = ArbitrageAgent(agent_id=rng.randint(0, 50), prng=RecordingRandom(1), simulator=world.sim, name="arb2")
    st = {"cashAmount": 1000, "assetVolume": 10, "orderVolume": v, "orderThresholdPrice": thr, "orderTimeLength": 2}
    try:
        a.setup(settings=st, accessible_markets_ids=[m.market_id for m in world.markets])
        orders = a.submit_orders(markets=world.markets)
    except Exception as e:  # noqa
        res.violation("arb", "built-in-agent-raised-on-admissible-state", {"class": "ArbitrageAgent", "settings": st, "exc": repr(e)})
        return
    if not wellformed(res, a, orders, "ArbitrageAgent"):
        return
    exp = []
    for im in (world.index, world.index2):
        g = gaps[im.market_id]
        if abs(g) > thr:
            comps = im.get_components()
            index_buy = g < 0
            exp.append((im.market_id, index_buy, len(comps) * v))
            exp.extend((c.market_id, not index_buy, v) for c in comps)
    got = sorted((o.market_id, bool(o.is_buy), o.volume) for o in orders)
    n_out = sum(1 for g in gaps.values() if abs(g) > thr)
    res.count("class/arb_two_indices_sharing_components:%d_outside_the_threshold" % n_out)
    if got != sorted(exp):
        res.violation("arb", "arbitrage-basket-is-not-index-n-times-v-against-components-v",
                      {"class": "ArbitrageAgent", "settings": st, "gaps": gaps, "threshold": thr,
                       "two_indices_sharing_components": True, "expected(market,is_buy,volume)": sorted(exp),
                       "orders": [repr(o) for o in orders]})


def run_case(case, res):
    from .. import bootstrap, taps

    bootstrap.init()
    taps.install()
    world = World(case)
    rng = random.Random(case["seed"] + 7)
    for _ in range(case["steps"]):
        world.step()
    kinds = ["fcn", "fcn", "fcn", "share", "mm", "mm"] + (["arb", "arb"] if world.index is not None else [])
    n_orders_before = res.counters.get("orders_checked_wellformed", 0)
    for i in range(case["evals"]):
        k = rng.choice(kinds)
        if k == "fcn":
            eval_fcn(res, world, rng, share=False)
        elif k == "share":
            eval_fcn(res, world, rng, share=True)
        elif k == "mm":
            eval_mm(res, world, rng)
        elif world.index2 is not None:
            eval_arb_two(res, world, rng)
        else:
            eval_arb(res, world, rng)
        if rng.random() < 0.3:
            world.step()
    res.seen(canon_hash([case["seed"], case["steps"], case["ticks"]]),
             res.counters.get("orders_checked_wellformed", 0) > n_orders_before)
