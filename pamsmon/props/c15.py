"""C15 - price limit rule: accepted prices stay in the band; other markets untouched."""
from .. import taps
from ..core import canon_hash
from ..runnerdrive import run_runner_case
from .c14 import price_matches_request

RULE = (
    "runner drive with 2-4 markets of which a strict subset are targets of one PriceLimitRule (sometimes two "
    "rules with disjoint targets, sometimes disabled), rates 0.01..0.3, scripted agents quoting far outside, on "
    "the edge of (+-1 ulp), and inside the band on target and non-target markets, market orders, HFT agents. "
    "Requested order (snapshot when submit_orders returned) versus accepted record; p0 is get_market_price(0) "
    "read at the moment of the decision. Case = one accepted order; distinct = (market role, position of the "
    "request relative to the band, side, kind); non-trivial = everything except in-band orders on non-targets."
    ' Since the seeded rounds: rules set up twice (refused first attempt, then corrected settings on the same object), whole-number prices written as Python int, explicit empty event lists.'
)
ASSUMPTIONS = [
    "tick rounding after the clip follows C19 (non-aggressive direction, less than one tick, 4-ulp slack)",
    "when several enabled rules target one market the tightest band decides (each rule clips in turn, the bands are nested around the same p0)",
]
REQUIRED = {
    "quick": {"orders_judged": 12000, "class/target_far_above": 500, "class/target_far_below": 500,
              "class/target_on_edge": 200, "class/target_inside": 1000, "class/target_market_order": 100,
              "class/non_target_outside_band": 1000, "class/disabled_rule_order": 200,
              "trades_on_target_checked": 500, "class/rule_set_up_again_after_a_refused_first_attempt": 15},
    "thorough": {"orders_judged": 400000, "class/target_far_above": 15000, "class/target_far_below": 15000,
                 "class/target_on_edge": 6000, "class/target_inside": 30000, "class/target_market_order": 3000,
                 "class/non_target_outside_band": 30000, "class/disabled_rule_order": 6000,
                 "trades_on_target_checked": 15000, "class/rule_set_up_again_after_a_refused_first_attempt": 450},
}


def budget(tier):
    return 200 if tier == "quick" else 60000


def gen_case(rng, tier, idx):
    n = rng.choice([2, 2, 3, 4])
    cfg = {"simulation": {"markets": [], "agents": [], "sessions": []}}
    for i in range(n):
        tick = rng.choice([1.0, 0.5, 0.1, 0.01, 10.0])
        cfg["S%d" % i] = {"class": "Market", "tickSize": tick, "marketPrice": rng.choice([100, 350, 3000]) * tick,
                          "outstandingShares": 1000}
        cfg["simulation"]["markets"].append("S%d" % i)
    mk = list(cfg["simulation"]["markets"])
    if rng.random() < 0.25:
        cfg["IDX"] = {"class": "IndexMarket", "tickSize": 0.5, "markets": mk[:2], "outstandingShares": 1000,
                      "marketPrice": 100.0}
        cfg["simulation"]["markets"].append("IDX")
        mk.append("IDX")
    r = rng.choice([0.0, 0.01, 0.03, 0.1, 0.3, 0.3, 0.75, 1.0, 2.5])
    k = rng.randint(1, len(mk) - 1)
    targets = rng.sample(mk, k)
    cfg["PL"] = {"class": "PriceLimitRule", "targetMarkets": targets, "triggerChangeRate": r}
    if rng.random() < 0.12:
        cfg["PL"]["enabled"] = False
    rules = ["PL"]
    rest = [m for m in mk if m not in targets]
    if len(rest) >= 2 and rng.random() < 0.3:
        cfg["PL2"] = {"class": "PriceLimitRule", "targetMarkets": rest[:1], "triggerChangeRate": rng.choice([0.02, 0.2])}
        rules.append("PL2")
    elif rng.random() < 0.2:
        # a second rule with another rate on (some of) the same markets: both clip, the tighter band decides
        cfg["PL2"] = {"class": "PriceLimitRule", "targetMarkets": rng.sample(targets, rng.randint(1, len(targets))),
                      "triggerChangeRate": rng.choice([0.02, 0.2, 0.5])}
        rules = rng.sample(["PL", "PL2"], 2)
    eps = 2.3e-16
    mult = [1 - 3 * r, 1 - 1.5 * r, 1 - r, (1 - r) * (1 - eps), (1 - r) * (1 + eps), 1 - 0.5 * r, 1.0, 1 + 0.5 * r,
            (1 + r) * (1 - eps), (1 + r) * (1 + eps), 1 + r, 1 + 1.5 * r, 1 + 3 * r, 0.2, 5.0, 0.0]
    for g in range(rng.choice([1, 2])):
        acts = [
            [6, {"a": "limit", "side": "any", "ref": "p0", "mult": mult, "allow_zero": True, "vol": [1, 5], "ttl": [None, 2, 5],
                 "offgrid": rng.choice([0.0, 0.5])}],
            [3, {"a": "limit", "side": "any", "off": [-4, 4], "vol": [1, 5], "ttl": [None, 3]}],
            [2, {"a": "limit", "side": "any", "ref": "p0", "mult": mult, "vol": [1, 4], "ttl": [None, 3], "as_int": True}],
            [1, {"a": "market", "side": "any", "vol": [1, 3], "ttl": [None, 2]}],
            [1, {"a": "cancel", "which": "any"}],
        ]
        cfg["A%d" % g] = {"class": "ScriptAgent", "numAgents": rng.randint(2, 4), "markets": mk, "cashAmount": 100000,
                          "assetVolume": 50, "program": {"p_act": 0.9, "max_batch": rng.choice([1, 3]), "actions": acts}}
        cfg["simulation"]["agents"].append("A%d" % g)
    if rng.random() < 0.4:
        cfg["H"] = {"class": "ScriptHFTAgent", "numAgents": 2, "markets": mk, "cashAmount": 100000, "assetVolume": 50,
                    "program": {"p_act": 0.8, "max_batch": 2, "actions": [
                        [1, {"a": "limit", "side": "any", "ref": "p0", "mult": mult, "vol": [1, 3], "ttl": [2]}]]}}
        cfg["simulation"]["agents"].append("H")
    ns = rng.choice([1, 2, 3])
    for i in range(ns):
        pl, ex = rng.choice([(True, True), (True, True), (True, False)])
        cfg["simulation"]["sessions"].append({"sessionName": i, "iterationSteps": rng.choice([4, 8, 15]),
                                              "withOrderPlacement": pl, "withOrderExecution": ex, "withPrint": False,
                                              "maxNormalOrders": rng.choice([2, 4]), "maxHighFrequencyOrders": 2})
    for name in rules:
        rng.choice(cfg["simulation"]["sessions"][:1] if rng.random() < 0.7 else cfg["simulation"]["sessions"]) \
            .setdefault("events", []).append(name)
    from ..runnerdrive import add_first_attempts, split_extra_targets

    split_extra_targets(rng, cfg, 0.15)
    add_first_attempts(rng, cfg, 0.2)
    return {"drive": "runner", "seed": rng.randrange(1 << 31), "config": cfg, "profile": "pricelimit"}


def sample_of(case):
    cfg = case["config"]
    return {"seed": case["seed"], "markets": {m: cfg[m]["tickSize"] for m in cfg["simulation"]["markets"]},
            "rules": {k: v for k, v in cfg.items() if isinstance(v, dict) and v.get("class") == "PriceLimitRule"},
            "sessions": [(s["iterationSteps"], s["withOrderPlacement"], s["withOrderExecution"], s.get("events"))
                         for s in cfg["simulation"]["sessions"]]}


class C15Monitor:
    def __init__(self, res, case):
        self.res = res
        cfg = case["config"]
        self.rule_of = {}       # market name -> rate (enabled rules only)
        self.disabled_targets = set()
        registered_from = {}
        start = 0
        for s in cfg["simulation"]["sessions"]:
            for name in s.get("events", []):
                registered_from[name] = start
            start += s["iterationSteps"]
        for name, e in cfg.items():
            if isinstance(e, dict) and e.get("class") == "PriceLimitRule" and name in registered_from:
                for t in list(e["targetMarkets"]) + list(e.get("extraTargets", [])):
                    if e.get("enabled", True):
                        if t in self.rule_of:
                            res.count("class/market_under_two_rules")
                        self.rule_of[t] = min(self.rule_of.get(t, e["triggerChangeRate"]), e["triggerChangeRate"])
                    else:
                        self.disabled_targets.add(t)
        self.disabled_targets -= set(self.rule_of)
        self.requests = {}
        self.band_of = {}       # (market_id, order_id) -> (lo, hi) at decision, or None
        self.cur = None
        self.seen = set()

    def on_event(self, ev):
        k = ev["k"]
        res = self.res
        if k == "consult_ret":
            for o, s in zip(ev["orders"], ev["snaps"]):
                if "price" in s:
                    self.requests[id(o)] = (o, s)
        elif k == "trig_call" and ev["what"] == "before_order":
            # the decision moment: p0 as the rule will read it
            o = ev["arg"]
            m = ev["sim"].id2market[o.market_id]
            self.cur = (o, m.get_market_price(0))
        elif k == "add_ret":
            self.judge(ev)
        elif k == "exec_ret":
            mkt = ev["mkt"]
            if mkt.name in self.rule_of and ev["logs"]:
                # one price per round (C01): the band that applies is the union of the bands the orders of this
                # round were clipped to (p0 still moves during step 0) and the band by p0 as it reads now
                rate = self.rule_of[mkt.name]
                p0 = mkt.get_market_price(0)
                bands = [(p0 * (1 - rate), p0 * (1 + rate))]
                for log in ev["logs"]:
                    for oid in (log.buy_order_id, log.sell_order_id):
                        b = self.band_of.get((mkt.market_id, oid))
                        if b:
                            bands.append(b)
                lo = min(b[0] for b in bands) - mkt.tick_size
                hi = max(b[1] for b in bands) + mkt.tick_size
                for log in ev["logs"]:
                    res.count("trades_on_target_checked")
                    if not (lo * (1 - 1e-12) <= log.price <= hi * (1 + 1e-12)):
                        res.violation("trade-band", "trade-on-target-market-outside-the-widened-band",
                                      {"fill": taps.snap_log(log), "band": [lo, hi], "market": mkt.name})

    def judge(self, ev):
        res = self.res
        r = self.requests.get(id(ev["order"]))
        if r is None:
            return
        req = r[1]
        log = ev["log"]
        mkt = ev["mkt"]
        res.count("orders_judged")
        acc = {"is_buy": log.is_buy, "kind": getattr(log.kind, "name", str(log.kind)), "volume": log.volume,
               "ttl": log.ttl, "price": log.price}
        same_rest = (acc["is_buy"] == req["is_buy"] and acc["kind"] == req["kind"] and acc["volume"] == req["volume"]
                     and acc["ttl"] == req["ttl"])
        rate = self.rule_of.get(mkt.name)
        p0 = self.cur[1] if self.cur and self.cur[0] is ev["order"] else mkt.get_market_price(0)
        q = req["price"]
        pos = "market-order" if q is None else None
        if rate is None:
            role = "disabled-target" if mkt.name in self.disabled_targets else "non-target"
            if role == "disabled-target":
                res.count("class/disabled_rule_order")
            if q is not None and self.rule_of:
                rr = max(self.rule_of.values())
                if abs(q - p0) > p0 * rr:
                    res.count("class/non_target_outside_band")
                    pos = "outside"
                else:
                    pos = "inside"
            if not same_rest or not price_matches_request(q, acc["price"], mkt.tick_size, acc["is_buy"]):
                res.violation("non-target", "order-for-non-target-market-refused-or-changed",
                              {"market": mkt.name, "role": role, "requested": req, "accepted": acc, "p0": p0})
        else:
            lo, hi = p0 * (1 - rate), p0 * (1 + rate)
            if q is None:
                res.count("class/target_market_order")
                if acc["price"] is not None or not same_rest:
                    res.violation("market-order", "market-order-changed-by-price-limit-rule",
                                  {"requested": req, "accepted": acc})
            else:
                exp = min(max(q, lo), hi)
                edge = min(abs(q - lo), abs(q - hi)) <= 4e-16 * p0 * 4
                if edge:
                    pos = "edge"
                    res.count("class/target_on_edge")
                elif q > hi:
                    pos = "above"
                    res.count("class/target_far_above")
                elif q < lo:
                    pos = "below"
                    res.count("class/target_far_below")
                else:
                    pos = "inside"
                    res.count("class/target_inside")
                self.band_of[(mkt.market_id, log.order_id)] = (lo, hi)
                ok = same_rest and (price_matches_request(exp, acc["price"], mkt.tick_size, acc["is_buy"])
                                    or (edge and price_matches_request(q, acc["price"], mkt.tick_size, acc["is_buy"])))
                if not ok:
                    mech = {"inside": "in-band-order-changed", "edge": "order-on-band-edge-mispriced",
                            "above": "order-above-band-not-clipped-to-upper-bound",
                            "below": "order-below-band-not-clipped-to-lower-bound"}[pos]
                    res.violation("clip", mech, {"market": mkt.name, "requested": req, "accepted": acc, "p0": p0,
                                                 "rate": rate, "band": [lo, hi], "expected_before_tick": exp,
                                                 "tick": mkt.tick_size})
                tick = mkt.tick_size
                if acc["price"] is not None and not (lo - tick) * (1 - 1e-12) <= acc["price"] <= (hi + tick) * (1 + 1e-12):
                    res.violation("band", "accepted-limit-price-outside-band-widened-by-one-tick",
                                  {"accepted": acc, "band": [lo, hi], "tick": tick})
        key = (mkt.name in self.rule_of, pos, acc["is_buy"], acc["kind"], mkt.name in self.disabled_targets)
        if key not in self.seen:
            self.seen.add(key)


def run_case(case, res):
    taps.install()
    mon = C15Monitor(res, case)
    out = run_runner_case(case, [mon.on_event])
    for name, refused, exc in out.first_attempts:
        res.count("class/rule_set_up_again_after_a_refused_first_attempt" if refused else "first_attempt_not_refused")
    if out.error is not None:
        res.count("runner_case_aborted:" + type(out.error).__name__)
        # the rule promises that orders are accepted (clipped or unchanged), never refused
        res.violation("accepts", "order-for-non-target-market-refused-or-changed"
                      if "price_limit_rule" in (out.tb or "") else "valid-price-limit-workload-aborted",
                      {"exc": repr(out.error), "tb": (out.tb or "")[-700:]})
        return
    for key in mon.seen:
        res.seen(canon_hash([case["seed"] % 7, list(map(str, key))]), not (key[0] is False and key[1] == "inside"))
