"""C09 - session rules: placement/execution switches, order caps, HFT interleaving."""
import collections
import math

from .. import taps
from ..core import canon_hash
from ..runnerdrive import add_builtin_events, gen_probe, gen_program, run_runner_case

RULE = (
    "runner drive: session lists with every flag combination, caps 0..5, submit rate in {0,0.3,0.7,1}, 0-4 HFT "
    "agents, scripted programs producing empty batches with probability 0-0.7, every built-in event class and "
    "probe events attached to the same or other sessions (non-execution sessions included). A per-step trace "
    "automaton over {consult, accept, round, step records} decides the switches, the stop rules and the HFT "
    "interleaving; order randomness and the submit rate are decided statistically on dedicated long runs "
    "(|z| <= 6.5, exact for rate 0 and 1). Case = one run; distinct = (seed, session flags/caps/rate, #agents); "
    "non-trivial = run with >=2 sessions or a cap that was reached."
)
ASSUMPTIONS = [
    "session flags are the configured ones (the halt rule mutates the live Session object)",
    "a trading halt is 'in force' while some market of an execution session is not running and a TradingHaltRule is configured",
]
REQUIRED = {
    "quick": {"steps": 3000, "class/cap_zero_step": 50, "class/cap_reached_before_all_consulted": 200,
              "class/all_consulted_cap_not_reached": 200, "class/hft_cap_reached": 50,
              "class/non_execution_session_with_events": 20, "class/non_placement_session": 20,
              "class/halt_in_force_accepts": 1, "rounds_after_accept_checked": 5000, "hft_phases": 300,
              "order_randomness_runs": 2},
    "thorough": {"steps": 100000, "class/cap_zero_step": 1500, "class/cap_reached_before_all_consulted": 6000,
                 "class/all_consulted_cap_not_reached": 6000, "class/hft_cap_reached": 1500,
                 "class/non_execution_session_with_events": 600, "class/non_placement_session": 600,
                 "class/halt_in_force_accepts": 30, "rounds_after_accept_checked": 150000, "hft_phases": 9000,
                 "order_randomness_runs": 40},
}


def budget(tier):
    return 320 if tier == "quick" else 64000


def gen_case(rng, tier, idx):
    if idx % 40 == 39:
        return gen_order_case(rng)
    n_spot = rng.choice([1, 2, 3])
    cfg = {"simulation": {"markets": [], "agents": [], "sessions": []}}
    for i in range(n_spot):
        tick = rng.choice([1.0, 0.5, 0.1])
        cfg["S%d" % i] = {"class": "Market", "tickSize": tick, "marketPrice": rng.choice([100, 400]) * tick,
                          "outstandingShares": 1000}
        cfg["simulation"]["markets"].append("S%d" % i)
    if n_spot >= 2 and rng.random() < 0.3:
        cfg["IDX"] = {"class": "IndexMarket", "tickSize": 0.5, "markets": ["S0", "S1"], "outstandingShares": 1000,
                      "marketPrice": (cfg["S0"]["marketPrice"] + cfg["S1"]["marketPrice"]) / 2}
        cfg["simulation"]["markets"].append("IDX")
    mk = list(cfg["simulation"]["markets"])
    n_norm = rng.randint(1, 6)
    groups = rng.choice([1, 2])
    left = n_norm
    for g in range(groups):
        n = left if g == groups - 1 else rng.randint(1, max(1, left - 1))
        left -= n
        if n <= 0:
            continue
        prog = gen_program(rng, "mixed")
        prog["p_act"] = rng.choice([0.3, 0.5, 0.8, 1.0])
        cfg["A%d" % g] = {"class": "ScriptAgent", "numAgents": n, "markets": mk, "cashAmount": 10000,
                          "assetVolume": 50, "program": prog}
        cfg["simulation"]["agents"].append("A%d" % g)
    n_hft = rng.choice([0, 1, 2, 3, 4])
    if n_hft:
        prog = gen_program(rng, "mixed")
        prog["p_act"] = rng.choice([0.3, 0.6, 1.0])
        cfg["H"] = {"class": "ScriptHFTAgent", "numAgents": n_hft, "markets": mk, "cashAmount": 10000,
                    "assetVolume": 50, "program": prog}
        cfg["simulation"]["agents"].append("H")
    ns = rng.choice([1, 2, 3, 4])
    total = 0
    for i in range(ns):
        pl, ex = rng.choice([(True, True), (True, True), (True, False), (False, False), (False, True)])
        st = rng.choice([2, 5, 10, 25])
        total += st
        s = {"sessionName": i, "iterationSteps": st, "withOrderPlacement": pl, "withOrderExecution": ex,
             "withPrint": False}
        if rng.random() < 0.85:
            s["maxNormalOrders"] = rng.choice([0, 1, 1, 2, 3, 5])
        if rng.random() < 0.85:
            s["maxHighFrequencyOrders"] = rng.choice([0, 1, 1, 2, 5])
        if rng.random() < 0.85:
            s["highFrequencySubmitRate"] = rng.choice([0.0, 0.3, 0.7, 1.0])
        cfg["simulation"]["sessions"].append(s)
    if rng.random() < 0.1:
        cfg["simulation"]["sessions"].insert(rng.randrange(ns + 1), {
            "sessionName": "empty", "iterationSteps": 0, "withOrderPlacement": True, "withOrderExecution": False,
            "withPrint": False})
    add_builtin_events(rng, cfg, p_each=0.45)
    if idx % 20 == 7:
        # a halt that starts in the very first step: zero threshold, crossing orders at time 0
        s0 = cfg["simulation"]["sessions"][0]
        s0.update({"withOrderPlacement": True, "withOrderExecution": True, "maxNormalOrders": 5, "iterationSteps": 25})
        for k, v in cfg.items():
            if isinstance(v, dict) and "program" in v and v["class"] == "ScriptAgent":
                v["program"] = {"p_act": 1.0, "max_batch": 2, "actions": [
                    [1, {"a": "both", "off": [1, 3], "vol": [1, 3], "ttl": [None, 4]}],
                    [1, {"a": "limit", "side": "any", "off": [-2, 2], "vol": [1, 3], "ttl": [None, 4]}]]}
        for k in [k for k, v in cfg.items() if isinstance(v, dict) and v.get("class") == "TradingHaltRule"]:
            for s_ in cfg["simulation"]["sessions"]:
                if k in s_.get("events", []):
                    s_["events"].remove(k)
            del cfg[k]
        cfg["HALT0"] = {"class": "TradingHaltRule", "targetMarkets": list(cfg["simulation"]["markets"]),
                        "triggerChangeRate": 0.0, "haltingTimeLength": rng.choice([1, 2, 3])}
        s0.setdefault("events", []).append("HALT0")
    if rng.random() < 0.4:
        cfg["PROBE"] = gen_probe(rng, cfg, 0, total)
        rng.choice(cfg["simulation"]["sessions"]).setdefault("events", []).append("PROBE")
    if idx % 4 == 3:
        # some of the configured rules and shocks are user subclasses of the bundled ones (they only extend setup():
        # a refused first attempt, then the real settings; every handler is inherited)
        import random as _random
        from ..runnerdrive import add_first_attempts

        add_first_attempts(_random.Random(idx * 7919 + len(cfg)), cfg, p=0.7)
    return {"drive": "runner", "seed": rng.randrange(1 << 31), "config": cfg, "profile": "sessions"}


def gen_order_case(rng):
    """long run in which every agent is consulted in every step: decides 'in random order' and the rate."""
    n = rng.choice([3, 4, 5])
    nh = rng.choice([3, 4])
    rate = rng.choice([0.3, 0.7])
    cfg = {
        "simulation": {"markets": ["S0"], "agents": ["Q", "P", "H"], "sessions": [
            {"sessionName": 0, "iterationSteps": 260 if rate > 0.5 else 560, "withOrderPlacement": True, "withOrderExecution": True,
             "withPrint": False, "maxNormalOrders": 50, "maxHighFrequencyOrders": 50, "highFrequencySubmitRate": rate}]},
        "S0": {"class": "Market", "tickSize": 1.0, "marketPrice": 300.0, "outstandingShares": 1000},
        # quiet agents never produce: all of them are consulted in every step
        "Q": {"class": "ScriptAgent", "numAgents": n, "markets": ["S0"], "cashAmount": 1000, "assetVolume": 10,
              "program": {"p_act": 0.0, "actions": []}},
        # one producer gives the HFT phases their opportunity
        "P": {"class": "ScriptAgent", "numAgents": 1, "markets": ["S0"], "cashAmount": 1000, "assetVolume": 10,
              "program": {"p_act": 1.0, "max_batch": 1,
                          "actions": [[1, {"a": "limit", "side": "any", "off": [-8, 8], "vol": [1, 2], "ttl": [3]}]]}},
        "H": {"class": "ScriptHFTAgent", "numAgents": nh, "markets": ["S0"], "cashAmount": 1000, "assetVolume": 10,
              "program": {"p_act": 0.0, "actions": []}},
    }
    return {"drive": "runner", "seed": rng.randrange(1 << 31), "config": cfg, "profile": "order"}


def sample_of(case):
    return {"seed": case["seed"], "profile": case["profile"], "sessions": case["config"]["simulation"]["sessions"],
            "agents": {k: {"class": v["class"], "n": v.get("numAgents"), "p_act": v["program"].get("p_act")}
                       for k, v in case["config"].items() if isinstance(v, dict) and "program" in v},
            "events": {k: v for k, v in case["config"].items() if isinstance(v, dict) and v.get("class", "").endswith(("Rule", "Shock", "Event"))}}


class C09Monitor:
    def __init__(self, res, case):
        self.res = res
        self.case = case
        self.cfg_sessions = case["config"]["simulation"]["sessions"]
        self.has_halt_rule = any(isinstance(v, dict) and v.get("class") == "TradingHaltRule" and v.get("enabled", True)
                                 for v in case["config"].values())
        self.max_halt_len = max([v.get("haltingTimeLength", 0) for v in case["config"].values()
                                 if isinstance(v, dict) and v.get("class") == "TradingHaltRule"] or [0])
        self.stopped_steps = {}
        self.sim = None
        self.sess = None          # index of the current session
        self.step = None          # per-step state
        self.pending_round = None
        self.firsts_norm = collections.Counter()
        self.firsts_hft = collections.Counter()
        self.perms_norm = set()
        self.perms_hft = set()
        self.n_full_norm = 0
        self.n_full_hft = 0
        self.session_had_events = {}

    # ------------------------------------------------------------------
    def cfg(self):
        return self.cfg_sessions[self.sess]

    def cap_norm(self):
        return self.cfg().get("maxNormalOrders", 1)

    def cap_hft(self):
        return self.cfg().get("maxHighFrequencyOrders", 1)

    def rate(self):
        return self.cfg().get("highFrequencySubmitRate", 1.0)

    def new_step(self):
        self.step = {
            "norm": [],            # [(agent_id, produced)]
            "batches": {},         # id(order obj) -> batch index (normal batches)
            "batch_sizes": [],
            "batch_left": {},      # batch index -> orders still to be handled
            "handled_batches": 0,
            "phase": None,         # current HFT phase: list of (agent, produced)
            "phases": 0,
            "phase_open_for_batch": None,
            "cur_batch": None,
            "accepted": 0,
        }

    def v(self, clause, mech, detail):
        d = dict(detail)
        d["session"] = self.sess
        d["session_config"] = self.cfg() if self.sess is not None else None
        self.res.violation(clause, mech, d)

    def halt_in_force(self):
        """a halt can be in force only while some market is stopped, and no halt lasts longer than the longest
        configured haltingTimeLength (+1 step for the resumption at the step after)."""
        if not self.has_halt_rule or self.sim is None:
            return False
        stopped = [m for m in self.sim.markets if not m.is_running]
        if not stopped:
            return False
        return any(self.stopped_steps.get(m.market_id, 0) <= self.max_halt_len + 1 for m in stopped)

    def flush_pending(self, why):
        """an accepted order/cancel must have been followed by a round on its market."""
        if self.pending_round is None:
            return
        mkt, what, halted = self.pending_round
        self.pending_round = None
        if halted:
            self.res.count("class/halt_in_force_accepts")
            return
        self.v("round-follows", "no-matching-round-after-accepted-%s-in-execution-session" % what,
               {"market": mkt.market_id, "next_event": why, "time": mkt.get_time()})

    def close_phase(self):
        st = self.step
        if st is None or st["phase"] is None:
            return
        ph = st["phase"]
        st["phase"] = None
        self.res.count("hft_phases")
        cap = self.cap_hft()
        n_h = len(self.sim.high_frequency_agents)
        prod = sum(1 for _, p in ph if p)
        if len(ph) < n_h:
            if prod != cap:
                self.v("hft-cap", "hft-consultation-stopped-before-cap-was-reached",
                       {"consulted": ph, "cap": cap, "n_hft": n_h})
            else:
                self.res.count("class/hft_cap_reached")
        else:
            self.n_full_hft += 1
            order = tuple(a for a, _ in ph)
            self.firsts_hft[order[0]] += 1
            if len(self.perms_hft) < 50:
                self.perms_hft.add(order)

    def end_step(self):
        st = self.step
        if st is None:
            return
        self.flush_pending("step-end")
        self.close_phase()
        res = self.res
        res.count("steps")
        c = self.cfg()
        if c["withOrderPlacement"]:
            cap = self.cap_norm()
            n = len(self.sim.normal_frequency_agents)
            k = len(st["norm"])
            prod = sum(1 for _, p in st["norm"] if p)
            if cap == 0:
                res.count("class/cap_zero_step")
            if k < n:
                if prod != cap:
                    self.v("normal-cap", "normal-consultation-stopped-before-cap-was-reached",
                           {"consulted": st["norm"], "cap": cap, "n_normal": n})
                elif cap > 0:
                    res.count("class/cap_reached_before_all_consulted")
            else:
                res.count("class/all_consulted_cap_not_reached" if prod < cap else "all_consulted_cap_reached_at_last")
                if n >= 2:
                    self.n_full_norm += 1
                    order = tuple(a for a, _ in st["norm"])
                    self.firsts_norm[order[0]] += 1
                    if len(self.perms_norm) < 50:
                        self.perms_norm.add(order)
            # submit rate statistics: opportunities = handled normal batches, when a phase is observable
            if len(self.sim.high_frequency_agents) >= 1 and self.cap_hft() >= 1:
                key = "p=%s" % self.rate()
                res.count("hft_opportunities/" + key, st["handled_batches"])
                res.count("hft_phases_seen/" + key, st["phases"])
        self.step = None

    # ------------------------------------------------------------------
    def on_event(self, ev):
        k = ev["k"]
        res = self.res
        if k == "runner_setup_ret":
            self.sim = ev["runner"].simulator
            return
        if k == "log_write":
            n = type(ev["log"]).__name__
            if n == "SessionBeginLog":
                self.sess = ev["log"].session.session_id
                self.stopped_steps = {}
                c = self.cfg()
                if not c["withOrderPlacement"]:
                    res.count("class/non_placement_session")
                if not c["withOrderExecution"] and self.case["config"].get("_has_events", True):
                    if any(isinstance(v, dict) and v.get("class", "") in
                           ("TradingHaltRule", "PriceLimitRule", "FundamentalPriceShock", "OrderMistakeShock", "ProbeEvent")
                           for v in self.case["config"].values()):
                        res.count("class/non_execution_session_with_events")
            elif n == "SessionEndLog":
                self.end_step()
                self.sess_done = self.sess
            elif n == "MarketStepBeginLog":
                m = ev["log"].market
                self.stopped_steps[m.market_id] = 0 if m.is_running else self.stopped_steps.get(m.market_id, 0) + 1
                if self.step is None:
                    self.new_step()
            elif n == "MarketStepEndLog":
                if self.step is not None and not self.step.get("ending"):
                    self.flush_pending("step-end-record")
                    self.close_phase()
                    self.step["ending"] = True
            return
        if k == "times_call":
            self.end_step()
            return
        if self.sess is None:
            return
        c = self.cfg()
        if k == "consult_call":
            self.flush_pending("consultation")
            if not c["withOrderPlacement"]:
                self.v("placement", "agent-consulted-in-session-without-order-placement",
                       {"agent": ev["agent"].agent_id, "time": ev["time"]})
            return
        if k == "consult_ret":
            st = self.step
            if st is None:
                self.v("step", "agent-consulted-outside-a-market-step", {"agent": ev["agent"].agent_id})
                return
            aid = ev["agent"].agent_id
            produced = len(ev["orders"]) > 0
            if not ev["hft"]:
                self.close_phase()
                if any(a == aid for a, _ in st["norm"]):
                    self.v("normal-once", "normal-agent-consulted-twice-in-a-step", {"agent": aid, "consulted": st["norm"]})
                prod_before = sum(1 for _, p in st["norm"] if p)
                if prod_before >= self.cap_norm():
                    self.v("normal-cap", "normal-agent-consulted-after-cap-was-reached",
                           {"agent": aid, "consulted": st["norm"], "cap": self.cap_norm()})
                st["norm"].append((aid, produced))
                if produced:
                    b = len(st["batch_sizes"])
                    st["batch_sizes"].append(len(ev["orders"]))
                    st["batch_left"][b] = len(ev["orders"])
                    for o in ev["orders"]:
                        st["batches"][id(o)] = b
            else:
                # HFT consultation: only after a completely handled normal batch
                if st["phase"] is None:
                    ok = st["cur_batch"] is not None and st["batch_left"].get(st["cur_batch"], 1) == 0 \
                        and st["phase_open_for_batch"] != st["cur_batch"]
                    if not ok:
                        self.v("hft-after-batch", "hft-agent-consulted-outside-the-phase-after-a-normal-batch",
                               {"agent": aid, "current_batch": st["cur_batch"],
                                "orders_left_in_batch": st["batch_left"].get(st["cur_batch"]),
                                "phase_already_held_for_batch": st["phase_open_for_batch"] == st["cur_batch"]})
                    st["phase"] = []
                    st["phases"] += 1
                    st["phase_open_for_batch"] = st["cur_batch"]
                    if self.rate() == 0.0:
                        self.v("hft-rate", "hft-phase-with-submit-rate-zero", {"agent": aid})
                ph = st["phase"]
                if any(a == aid for a, _ in ph):
                    self.v("hft-once", "hft-agent-consulted-twice-in-one-phase", {"agent": aid, "consulted": ph})
                if sum(1 for _, p in ph if p) >= self.cap_hft():
                    self.v("hft-cap", "hft-agent-consulted-after-cap-was-reached",
                           {"agent": aid, "consulted": ph, "cap": self.cap_hft()})
                ph.append((aid, produced))
            return
        if k in ("add_call", "cancel_call"):
            self.flush_pending("next-acceptance")
            return
        if k in ("add_ret", "cancel_ret"):
            st = self.step
            if not c["withOrderPlacement"]:
                self.v("placement", "order-or-cancel-accepted-in-session-without-order-placement",
                       {"record": taps.snap_log(ev["log"])})
            if st is not None:
                st["accepted"] += 1
                obj = ev["order"] if k == "add_ret" else ev["cancel"]
                b = st["batches"].get(id(obj))
                if b is not None:
                    # an order of a normal batch: closes any HFT phase of the previous batch
                    if st["cur_batch"] != b:
                        self.close_phase()
                        if st["cur_batch"] is not None and st["batch_left"].get(st["cur_batch"], 0) == 0:
                            pass
                        st["cur_batch"] = b
                    st["batch_left"][b] -= 1
                    if st["batch_left"][b] == 0:
                        st["handled_batches"] += 1
            if c["withOrderExecution"]:
                self.pending_round = (ev["mkt"], "order" if k == "add_ret" else "cancel", self.halt_in_force())
                res.count("rounds_after_accept_checked")
            return
        if k == "exec_call":
            if self.pending_round is not None and self.pending_round[0] is ev["mkt"]:
                self.pending_round = None
            cs = getattr(self.sim, "current_session", None)
            self.switch_at_round = None if cs is None else bool(cs.with_order_execution)
            return
        if k == "exec_exc":
            if not c["withOrderExecution"]:
                self.v("execution", "matching-round-attempted-and-aborted-in-session-without-order-execution",
                       {"exc": repr(ev["exc"]), "market": ev["mkt"].market_id})
                self.aborted_by_rule = True
            return
        if k == "exec_ret":
            if ev["logs"] and getattr(self, "switch_at_round", True) is False and c["withOrderExecution"]:
                # the session's execution switch had been turned off (a halt is in force) when this round began
                self.v("execution", "fill-while-the-session-execution-switch-is-off",
                       {"fills": [taps.snap_log(l) for l in ev["logs"]][:5], "time": ev["time"], "market": ev["mkt"].name})
                return
            if ev["logs"] and not c["withOrderExecution"]:
                self.v("execution", "fill-in-session-without-order-execution",
                       {"fills": [taps.snap_log(l) for l in ev["logs"]][:5], "time": ev["time"]})
            return

    def finish(self, out):
        res = self.res
        self.end_step()
        c = self.case
        if c["profile"] == "order" and out.error is None:
            res.count("order_randomness_runs")
            for name, firsts, perms, n_full, agents in (
                ("normal", self.firsts_norm, self.perms_norm, self.n_full_norm, self.sim.normal_frequency_agents),
                ("hft", self.firsts_hft, self.perms_hft, self.n_full_hft, self.sim.high_frequency_agents),
            ):
                ids = [a.agent_id for a in agents]
                n = len(ids)
                if n_full < 60:
                    res.inconc("order-randomness run saw only %d full %s consultations" % (n_full, name))
                    continue
                if len(perms) < 2:
                    self.v("random-order", "%s-agents-always-consulted-in-the-same-order" % name,
                           {"order": list(perms), "steps": n_full})
                    continue
                p = 1.0 / n
                sd = math.sqrt(n_full * p * (1 - p))
                for a in ids:
                    z = (firsts.get(a, 0) - n_full * p) / sd
                    res.maximum("max_abs_z_first_position", round(abs(z), 3))
                    if firsts.get(a, 0) == 0 or abs(z) > 6.5:
                        self.v("random-order", "%s-agent-activation-order-not-random" % name,
                               {"agent": a, "times_first": firsts.get(a, 0), "full_consultations": n_full,
                                "expected": n_full * p, "z": z})
                        break


def run_case(case, res):
    taps.install()
    mon = C09Monitor(res, case)
    out = run_runner_case(case, [mon.on_event])
    if out.error is not None and getattr(mon, "aborted_by_rule", False):
        return
    if out.error is not None:
        res.count("runner_case_aborted:" + type(out.error).__name__)
        res.inconc("valid session workload aborted: %r %s" % (out.error, (out.tb or "")[-600:]))
        return
    mon.finish(out)
    s = case["config"]["simulation"]["sessions"]
    res.seen(canon_hash([case["seed"], s]), len(s) >= 2 or res.counters.get("class/cap_reached_before_all_consulted", 0) > 0)


def finalize(res, tier, seed, env):
    """submit rate: phases seen versus Binomial(opportunities, rate)."""
    out = {}
    for key, n in list(res.counters.items()):
        if not key.startswith("hft_opportunities/"):
            continue
        p = float(key.split("=")[1])
        k = res.counters.get("hft_phases_seen/p=%s" % p, 0)
        if n == 0:
            continue
        if p in (0.0, 1.0):
            if k != (0 if p == 0.0 else n):
                res.violation("hft-rate", "hft-phase-frequency-incompatible-with-submit-rate",
                              {"rate": p, "opportunities": n, "phases": k}, case={"aggregate": True})
            z = 0.0
        else:
            z = (k - n * p) / math.sqrt(n * p * (1 - p))
            if abs(z) > 6.5:
                res.violation("hft-rate", "hft-phase-frequency-incompatible-with-submit-rate",
                              {"rate": p, "opportunities": n, "phases": k, "z": z}, case={"aggregate": True})
        out["rate_%s" % p] = {"opportunities": n, "phases": k, "z": round(z, 3)}
    return {"submit_rate_statistics": out}
