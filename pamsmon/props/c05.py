from .. import taps
from ..lifecycle import C05Monitor
from ..runnerdrive import gen_accounting_case, run_runner_case
from ._c05_meta import *  # noqa


def budget(tier):
    return BUDGET[tier]


def gen_case(rng, tier, idx):
    return gen_accounting_case(rng, tier, hft=(rng.choice([1, 2, 3]) if idx % 2 == 0 else None),
                               penny=(True if idx % 8 == 3 else None), auction=(idx % 25 == 7))


def sample_of(case):
    return {"drive": "runner", "seed": case["seed"], "sessions": case["config"]["simulation"]["sessions"],
            "markets": case["config"]["simulation"]["markets"],
            "agents": {k: {"n": v.get("numAgents"), "class": v["class"], "program": v.get("program")}
                       for k, v in case["config"].items() if isinstance(v, dict) and "program" in v}}


def run_case(case, res):
    taps.install()
    mon = C05Monitor(res)
    out = run_runner_case(case, [mon.on_event])
    if out.error is not None:
        res.count("runner_case_aborted:" + type(out.error).__name__)
        res.inconc("valid accounting workload aborted: %r" % (out.error,))
        return
    if "05" == "05":
        mon.finish(case)
    else:
        mon.finish(out, case)
    extra_checks(case, res, out, mon)
