"""C04 - order accounting and lifetime: nothing lost, no fill after cancel or expiry."""
import random

from .. import taps
from ..direct import DirectRun, SimStub, gen_churn_history, gen_deep_cancel_history, gen_history
from ..lifecycle import C04Monitor
from ..runnerdrive import gen_accounting_case, run_runner_case

RULE = (
    "runner drive with scripted normal and HFT agents (cancels of resting / partly filled / filled / expired / "
    "already cancelled orders, ttl 1..5 and none, self-trades, placement-only then execution sessions), direct "
    "drive for the fill-in-the-last-live-step corner, hostile single-action runs (resubmission, order under a "
    "foreign agent id, order routed to a market it does not name) and constructor misuse. Case = one run; "
    "distinct = (run, order-lifetime shape: #fills, terminal kind, ttl class, kind); non-trivial = lifetime with "
    "a fill or ended by cancel/expiry."
)
ASSUMPTIONS = [
    "order ids are unique per market (checked)",
    "expiry records are observed through the logger; runs without a logger use the public depth getters only",
]
REQUIRED = {
    "quick": {"acceptances": 5000, "fills": 1000, "expiries": 300, "class/cancel_of_resting": 100,
              "class/partial_fill_then_cancel": 10, "class/fill_in_last_live_step": 10,
              "class/cancel_after_expired": 5, "class/cancel_after_filled": 5, "class/cancel_after_cancelled": 5,
              "class/refused_resubmission": 3, "class/refused_spoofed_order": 3,
              "class/refused_spoofed_order_of_a_high_frequency_agent": 2,
              "class/refused_foreign_market": 3, "class/refused_constructor_misuse": 10, "book_comparisons": 5000,
              "class/expiry_of_long_lived_order": 20},
    "thorough": {"acceptances": 200000, "fills": 40000, "expiries": 10000, "class/cancel_of_resting": 4000,
                 "class/partial_fill_then_cancel": 300, "class/fill_in_last_live_step": 300,
                 "class/cancel_after_expired": 100, "class/cancel_after_filled": 100,
                 "class/cancel_after_cancelled": 100, "class/refused_resubmission": 50,
                 "class/refused_spoofed_order": 50, "class/refused_foreign_market": 50,
                 "class/refused_spoofed_order_of_a_high_frequency_agent": 20,
                 "class/refused_constructor_misuse": 200, "book_comparisons": 200000,
                 "class/expiry_of_long_lived_order": 600},
}


def budget(tier):
    return 400 if tier == "quick" else 48000


def gen_case(rng, tier, idx):
    r = idx % 20
    if r in (17, 18):
        # every hostile action by a normal agent (r == 17) and by a high-frequency agent (r == 18), in turn
        return gen_accounting_case(rng, tier, hostile=["resubmit", "spoof", "foreign_cancel"][(idx // 20) % 3],
                                   hft=rng.choice([1, 2, 3]) if r == 18 else None, hostile_hft=(r == 18))
    if r == 19:
        return {"drive": "misuse", "seed": rng.randrange(1 << 30)}
    if r == 10:
        c = gen_churn_history(rng, tier)
        c["drive"] = "direct"
        return c
    if r == 11:
        c = gen_deep_cancel_history(rng, tier)
        c["drive"] = "direct"
        return c
    if r == 12:
        c = gen_history(rng, tier, {"ttl_menu": [None, 40, 41, 60, 99, 100, 101, 150], "max_levels": 2, "long_lived": True,
                                    "p_market": 0.0})
        c["drive"] = "direct"
        return c
    if r in (13, 14, 15, 16):
        c = gen_history(rng, tier, {"ttl_menu": [None, 1, 1, 2, 3], "max_levels": 3})
        c["drive"] = "direct"
        return c
    return gen_accounting_case(rng, tier)


def sample_of(case):
    if case["drive"] == "runner":
        return {"drive": "runner", "seed": case["seed"], "hostile": case.get("hostile"),
                "sessions": case["config"]["simulation"]["sessions"],
                "agents": {k: v.get("program") for k, v in case["config"].items() if isinstance(v, dict) and "program" in v}}
    if case["drive"] == "direct":
        return {"drive": "direct", "tick": case["tick"], "ops": case["ops"][:25]}
    return case


def run_misuse(case, res):
    """orders that must never come to rest: refused by the constructor or by the market."""
    from pams.market import Market
    from pams.order import LIMIT_ORDER, MARKET_ORDER, Cancel, Order

    rng = random.Random(case["seed"])

    def mk(mid):
        m = Market(market_id=mid, prng=random.Random(0), simulator=SimStub(), name="m%d" % mid)
        m.setup({"tickSize": 1.0, "marketPrice": 100.0})
        m._update_time(next_fundamental_price=100.0)
        return m

    m0, m1 = mk(0), mk(1)
    mon = C04Monitor(res)
    taps.add_sink(mon.on_event)
    try:
        # constructor misuse
        for kw in (
            dict(kind=LIMIT_ORDER, volume=0, price=100.0),
            dict(kind=LIMIT_ORDER, volume=-rng.randint(1, 5), price=100.0),
            dict(kind=LIMIT_ORDER, volume=1, price=100.0, ttl=0),
            dict(kind=LIMIT_ORDER, volume=1, price=100.0, ttl=-rng.randint(1, 3)),
            dict(kind=MARKET_ORDER, volume=1, price=100.0),
            dict(kind=LIMIT_ORDER, volume=1, price=None),
        ):
            try:
                o = Order(agent_id=0, market_id=0, is_buy=rng.random() < 0.5, **kw)
            except ValueError:
                res.count("class/refused_constructor_misuse")
                continue
            except Exception as e:  # noqa
                res.count("constructor_misuse_other_exception:" + type(e).__name__)
                continue
            # constructed: then it must at least not come to rest with a non-positive volume / lifetime
            try:
                m0._add_order(o)
                if o.volume <= 0:
                    res.violation("positive", "order-with-non-positive-volume-accepted", {"order": taps.snap_order(o)})
                else:
                    res.count("malformed_order_constructed_and_accepted:" + repr(sorted(kw)))
            except Exception:  # noqa
                res.count("class/refused_constructor_misuse")
        # an order naming market 0 handed to market 1
        o = Order(agent_id=0, market_id=0, is_buy=True, kind=LIMIT_ORDER, volume=2, price=99.0)
        try:
            m1._add_order(o)
        except Exception:  # noqa
            res.count("class/refused_foreign_market")
        # (an acceptance would have been flagged by the monitor: names-market)
        # resubmission of an accepted order, directly
        o = Order(agent_id=0, market_id=0, is_buy=True, kind=LIMIT_ORDER, volume=2, price=99.0, ttl=rng.choice([None, 3]))
        m0._add_order(o)
        if rng.random() < 0.5:
            m0._cancel_order(Cancel(order=o))
        try:
            m0._add_order(o)
        except Exception:  # noqa
            res.count("class/refused_resubmission_direct")
        # the very first order of a market, accepted at time 0 with id 0 (both stamps are "falsy")
        m2 = mk(2)
        first = Order(agent_id=0, market_id=2, is_buy=rng.random() < 0.5, kind=LIMIT_ORDER, volume=1, price=100.0)
        m2._add_order(first)
        try:
            m2._add_order(first)
        except Exception:  # noqa
            res.count("class/refused_resubmission_direct")
        # a cancel routed to the wrong market must not remove anything from it
        o2 = Order(agent_id=1, market_id=0, is_buy=False, kind=LIMIT_ORDER, volume=2, price=105.0)
        m0._add_order(o2)
        try:
            m1._cancel_order(Cancel(order=o2))
            res.count("cancel_accepted_by_foreign_market")
        except Exception:  # noqa
            res.count("class/refused_foreign_market_cancel")
    finally:
        taps.remove_sink(mon.on_event)


def run_case(case, res):
    taps.install()
    if case["drive"] == "misuse":
        return run_misuse(case, res)
    mon = C04Monitor(res)
    if case["drive"] == "direct":
        run = DirectRun(case)
        taps.add_sink(mon.on_event)
        try:
            run.run(on_op_exc=lambda i, op, e: res.count("op_raised:" + type(e).__name__) or "stop")
        finally:
            taps.remove_sink(mon.on_event)

        class _O:
            accepts = []
            cancels = []
            error = None

        mon.finish(_O, case)
        return
    out = run_runner_case(case, [mon.on_event])
    if out.error is not None:
        if case.get("hostile"):
            res.count("hostile_run_aborted:" + type(out.error).__name__)
        else:
            res.count("runner_case_aborted:" + type(out.error).__name__)
            res.inconc("valid accounting workload aborted: %r" % (out.error,))
    mon.finish(out, case)
