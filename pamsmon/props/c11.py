from .. import taps
from ..lifecycle import C11Monitor
from ..runnerdrive import gen_accounting_case, run_runner_case
from ._c11_meta import *  # noqa


def budget(tier):
    return BUDGET[tier]


def gen_case(rng, tier, idx):
    if idx % 30 == 13:
        # one round with more than two hundred parties
        from ..runnerdrive import gen_big_auction_case

        return gen_big_auction_case(rng)
    return gen_accounting_case(rng, tier, hft=(rng.choice([1, 2, 3]) if idx % 2 == 0 else None))


def sample_of(case):
    return {"drive": "runner", "seed": case["seed"], "sessions": case["config"]["simulation"]["sessions"],
            "markets": case["config"]["simulation"]["markets"],
            "agents": {k: {"n": v.get("numAgents"), "class": v["class"], "program": v.get("program")}
                       for k, v in case["config"].items() if isinstance(v, dict) and "program" in v}}


def run_case(case, res):
    taps.install()
    mon = C11Monitor(res)
    out = run_runner_case(case, [mon.on_event])
    if out.error is not None:
        res.count("runner_case_aborted:" + type(out.error).__name__)
        res.inconc("valid accounting workload aborted: %r" % (out.error,))
        return
    if "11" == "05":
        mon.finish(case)
    else:
        mon.finish(out, case)
    extra_checks(case, res, out, mon)
