"""Direct drive: generated operation histories applied to one real pams.Market.

A case is explicit JSON:  {"tick":…, "p0":…, "auto":bool, "ops":[…]}  with operations
  ["L", is_buy, price, volume, ttl|None, agent]   limit order
  ["M", is_buy, volume, ttl|None, agent]          market order
  ["C", k]                                         cancel the k-th order submitted so far (any state)
  ["T"]                                            clock step
  ["X"]                                            matching round (only performed while running)
  ["R", flag]                                      switch running on/off (what the runner / halt rule do)
With "auto" a matching round follows every accepted order or cancel while the market is
running, exactly as SequentialRunner does in an execution session.
"""
import random

from . import taps

TICKS_ALL = [1.0, 2.0, 0.5, 0.25, 0.125, 10.0, 3.0, 0.1, 0.01, 0.05, 1e-5]
TTL_MENU = [None, None, None, 1, 1, 2, 3, 7, 50]


class SimStub:
    """the only thing Market needs from its simulator in direct drive."""

    def __init__(self):
        self.fundamentals = None
        self.current_session = None


def gen_history(rng, tier, profile=None):
    profile = profile or {}
    tick = profile.get("tick", rng.choice(TICKS_ALL))
    base = profile.get("base", rng.choice([20, 100, 1000, 12345]))
    if "base" not in profile and "tick" not in profile and rng.random() < 0.05:
        # penny book: buys below one tick are rounded to price 0.0, market sells can then trade at 0.0
        tick, base = 1.0, 1
        profile = dict(profile, penny=True, p_off=0.6, p_market=0.3, max_levels=3)
    elif "base" not in profile and rng.random() < 0.12:
        # very fine grids relative to the price level: neighbouring ticks differ by 1e-9 .. 1e-11 of the price
        base = rng.choice([10 ** 9 + 7, 3 * 10 ** 9, 12345678901])
    nlev = rng.randint(1, profile.get("max_levels", 8))
    mode = profile.get("mode") or rng.choice(["continuous", "continuous", "batch", "mixed"])
    long_ = tier == "thorough" and rng.random() < 0.3
    n_ops = rng.randint(10, 150 if long_ else 70)
    p_market = profile.get("p_market", rng.choice([0.0, 0.0, 0.1, 0.3]))
    p_off = profile.get("p_off", rng.choice([0.0, 0.2, 0.6]))
    w_submit = 10
    w_cancel = rng.choice([0, 1, 3, 5])
    w_step = rng.choice([0, 1, 2, 4])
    if profile.get("long_lived"):
        # few orders with long lifetimes, many clock steps (lifetimes that cross the 100-step storage chunks)
        n_ops = rng.randint(120, 330)
        w_submit, w_cancel, w_step = rng.choice([2, 4]), 0.3, 10
    w_toggle = {"continuous": 0, "batch": 0.6, "mixed": 0.8}[mode]
    w_x = {"continuous": 0.3, "batch": 0.5, "mixed": 0.5}[mode]
    big_vol = rng.random() < 0.15
    n_agents = rng.randint(1, 4)
    ttl_menu = profile.get("ttl_menu", TTL_MENU)
    running = mode != "batch"
    auto = profile.get("auto", True)
    ops = [["R", running]]
    n_sub = 0
    for _ in range(n_ops):
        if n_sub and rng.random() < profile.get("p_refused", 0.04):
            # a request the market refuses by design (tolerated by the caller); the market is then used normally
            ops.append(["RF", rng.choice(RF_FORMS), rng.randrange(n_sub)])
            continue
        r = rng.random() * (w_submit + w_cancel + w_step + w_toggle + w_x)
        if r < w_submit:
            is_buy = rng.random() < 0.5
            vol = rng.randint(1, 9) if not big_vol else rng.choice([1, 2, 50, 1000, 10000])
            ttl = rng.choice(ttl_menu)
            ag = rng.randrange(n_agents)
            if rng.random() < p_market:
                ops.append(["M", is_buy, vol, ttl, ag])
            else:
                lev = base + rng.randint(-nlev, nlev)
                if profile.get("penny"):
                    lev = max(0, lev)
                price = lev * tick
                if rng.random() < p_off or price <= 0:
                    price = (lev + rng.random()) * tick
                ops.append(["L", is_buy, price, vol, ttl, ag])
            n_sub += 1
        elif r < w_submit + w_cancel:
            if n_sub:
                # bias towards recent orders, but any earlier order (filled, expired, cancelled) may be hit
                k = n_sub - 1 - int(rng.random() ** 2 * n_sub)
                ops.append(["C", k])
        elif r < w_submit + w_cancel + w_step:
            ops.append(["T"])
        elif r < w_submit + w_cancel + w_step + w_toggle:
            running = not running
            ops.append(["R", running])
            if running:
                ops.append(["X"])
        else:
            # while the market is stopped every other round request is made anyway (a caller that does not look at
            # the running flag): refused by design when the book is crossed, and the market is then used normally
            ops.append(["XF"] if (not running and len(ops) % 2 == 0) else ["X"])
    if mode != "continuous" and not running:
        ops.append(["R", True])
        ops.append(["X"])
    if rng.random() < 0.5:
        add_sweeps(rng, {"ops": ops})
    return {
        "tick": tick,
        "p0": base * tick,
        "auto": auto,
        "mode": mode,
        "ops": ops,
        "fund_seed": rng.randrange(1 << 30),
        "scalars": rng.choice([None] * 10 + ["numpy", "int"]),
    }


def gen_deep_cancel_history(rng, tier):
    """deep one-sided books, cancels of the best and of arbitrary resting orders, then orders from the other side
    priced inside the resting range (the situations in which a damaged priority structure becomes visible)."""
    tick = rng.choice([1.0, 0.5, 0.1, 10.0])
    base = rng.choice([100, 1000])
    if rng.random() < 0.1:
        tick = rng.choice([1.0, 0.01, 1e-5])
        base = rng.choice([10 ** 9 + 7, 3 * 10 ** 9, 12345678901])
    ops = [["R", True]]
    for _ in range(rng.randint(1, 3)):
        side = rng.random() < 0.5
        width = rng.randint(5, 20)
        for _ in range(rng.randint(8, 24)):
            lev = base + (-(rng.randint(1, width)) if side else rng.randint(1, width))
            ops.append(["L", side, lev * tick, rng.randint(1, 3), rng.choice([None, None, None, 30]), 0])
            if rng.random() < 0.5:
                ops.append(["T"])
        if rng.random() < 0.3:
            # short-lived orders anywhere in the resting range, all accepted in one step: they leave the middle of the
            # book by expiry (not by cancel) a few steps later, while further orders keep arriving
            for _ in range(rng.randint(2, 6)):
                lev = base + (-(rng.randint(1, width)) if side else rng.randint(1, width))
                ops.append(["L", side, lev * tick, rng.randint(1, 2), rng.choice([1, 2, 3]), 2])
        stopped_bursts = rng.random() < 0.3
        for _ in range(rng.randint(3, 10)):
            # burst: cancels of arbitrary resting orders, then of the best, then an order from the other side
            # priced at the k-th best resting level (resolved on the live depth view) - no trade in between.
            # In some histories the cancels arrive while the market is stopped (pre-open, halt) and matching
            # resumes before the other side arrives.
            if stopped_bursts:
                ops.append(["R", False])
            for _ in range(rng.randint(0, 3)):
                ops.append(["CR", side])
            for _ in range(rng.randint(0, 3)):
                ops.append(["CB", side])
            if stopped_bursts:
                if rng.random() < 0.5:
                    ops.append(["T"])
                ops.append(["R", True])
            for _ in range(rng.randint(1, 2)):
                r = rng.random()
                if r < 0.75:
                    ops.append(["LX", not side, rng.choice([0, 0, 1, 1, 2, 3, 4, 6]), rng.choice([1, 1, 2, 4, 7, 12]), 1])
                elif r < 0.85:
                    ops.append(["M", not side, rng.choice([1, 2, 5, 9]), None, 1])
                else:
                    lev = base + (-(rng.randint(0, width)) if side else rng.randint(0, width))
                    ops.append(["L", not side, lev * tick, rng.randint(1, 2), rng.choice([None, 2]), 1])
            for _ in range(rng.randint(1, 5)):
                ops.append(["L", side, (base + (-(rng.randint(1, width)) if side else rng.randint(1, width))) * tick, 1, None, 0])
        if rng.random() < 0.5:
            ops.append(["T"])
    add_sweeps(rng, {"ops": ops})
    return {"tick": tick, "p0": base * tick, "auto": True, "mode": "deep-cancel", "ops": ops,
            "fund_seed": rng.randrange(1 << 30), "scalars": rng.choice([None] * 10 + ["numpy", "int"])}


def add_sweeps(rng, case):
    """epilogue of a history: matching is switched on and each side is swept by taker orders for a random fraction of
    its resting volume (one round each): an order left behind by such a round must not outrank a filled one."""
    ops = case["ops"]
    ops.append(["R", True])
    for _ in range(rng.randint(1, 2)):
        for side in rng.sample([True, False], 2):
            ops.append(["SW", side, rng.choice([0.2, 0.35, 0.5, 0.7, 0.9])])
    return case


def gen_tie_history(rng, tier):
    """large groups of resting orders that share price level AND acceptance step (only their ids rank them), eaten
    into by many small rounds from the other side, with the remainder re-inserted after every round."""
    tick = rng.choice([1.0, 0.5, 0.1, 10.0])
    base = rng.choice([100, 1000])
    ops = [["R", True]]
    for _ in range(rng.randint(1, 3)):
        side = rng.random() < 0.5
        levels = [base + (-(k + 1) if side else (k + 1)) for k in range(rng.randint(1, 3))]
        # the block: 6-16 orders per level, all in one step
        for lev in levels:
            for _ in range(rng.randint(6, 16)):
                ops.append(["L", side, lev * tick, rng.randint(1, 3), rng.choice([None, None, 40]), rng.randrange(3)])
        ops.append(["T"])
        for _ in range(rng.randint(8, 30)):
            r = rng.random()
            if r < 0.55:
                ops.append(["M", not side, rng.randint(1, 4), None, 3])
            elif r < 0.8:
                ops.append(["LX", not side, rng.choice([0, 0, 1, 2]), rng.randint(1, 5), 3])
            elif r < 0.9:
                ops.append(["L", side, rng.choice(levels) * tick, rng.randint(1, 2), None, rng.randrange(3)])
            else:
                ops.append(["T"])
            if rng.random() < 0.1:
                ops.append(["CR", side])
    add_sweeps(rng, {"ops": ops})
    return {"tick": tick, "p0": base * tick, "auto": True, "mode": "tie-block", "ops": ops,
            "fund_seed": rng.randrange(1 << 30), "scalars": None}


def gen_both_sides_market_history(rng, tier):
    """market orders accumulate on BOTH sides while matching is off (often with equal total volume), in front of limit
    orders that are one to three ticks apart and do not cross; then matching resumes."""
    tick = rng.choice([0.1, 0.01, 0.05, 1e-5, 1.0, 0.5, 0.25])
    base = rng.choice([3, 4, 5, 6, 12, 24, 29, 100, 1000])
    ops = [["R", True]]
    for _ in range(rng.randint(1, 4)):
        ops.append(["R", False])
        gap = rng.choice([1, 1, 1, 2, 3])
        lo = base + rng.randint(-1, 2)
        for k in range(rng.randint(1, 3)):
            ops.append(["L", True, (lo - k) * tick, rng.randint(1, 3), None, 0])
            ops.append(["L", False, (lo + gap + k) * tick, rng.randint(1, 3), None, 1])
        vols = [rng.choice([1, 2]) for _ in range(rng.randint(1, 3))]
        for v in vols:
            ops.append(["M", True, v, None, 2])
        if rng.random() < 0.7:
            rng.shuffle(vols)           # the same total on the other side
        else:
            vols = [rng.choice([1, 2, 3]) for _ in range(rng.randint(1, 3))]
        for v in vols:
            ops.append(["M", False, v, None, 3])
        if rng.random() < 0.3:
            ops.append(["T"])
        ops.append(["R", True])
        ops.append(["X"])
        for _ in range(rng.randint(0, 4)):
            ops.append(["L", rng.random() < 0.5, (lo + rng.randint(-2, gap + 2)) * tick, rng.randint(1, 2), rng.choice([None, 3]), 1])
        ops.append(["T"])
    return {"tick": tick, "p0": base * tick, "auto": True, "mode": "both-sides-market", "ops": ops,
            "fund_seed": rng.randrange(1 << 30), "scalars": None}


def gen_deep_auction_history(rng, tier):
    """call auction on a deep book: while matching is off, 7-20 limit orders accumulate per side over several price
    levels (partly crossing), then one to three MARKET orders arrive on one or both sides behind them, perhaps a few
    more limit orders, and the first round after matching resumes sweeps several levels."""
    tick = rng.choice([1.0, 0.5, 0.1, 0.25])
    base = rng.choice([100, 300, 1000])
    ops = [["R", True]]
    for _ in range(rng.randint(1, 3)):
        ops.append(["R", False])
        width = rng.randint(4, 10)
        overlap = rng.randint(1, 4)
        nb, ns = rng.randint(7, 20), rng.randint(7, 20)
        seq = [True] * nb + [False] * ns
        rng.shuffle(seq)
        for k, side in enumerate(seq):
            lev = base + (overlap - rng.randint(0, width) if side else -overlap + rng.randint(0, width))
            ops.append(["L", side, lev * tick, rng.randint(1, 3), rng.choice([None, None, 40]), 0])
            if rng.random() < 0.12:
                ops.append(["T"])
        for side in rng.choice([[True], [False], [True, False], [False, True]]):
            for _m in range(rng.randint(1, 3)):
                ops.append(["M", side, rng.randint(1, 4), None, 2])
        for _ in range(rng.randint(0, 3)):
            side = rng.random() < 0.5
            lev = base + (overlap - rng.randint(0, width) if side else -overlap + rng.randint(0, width))
            ops.append(["L", side, lev * tick, rng.randint(1, 3), None, 1])
        if rng.random() < 0.3:
            ops.append(["T"])
        ops.append(["R", True])
        if rng.random() < 0.5:
            ops.append(["X"])
        else:
            # the first order of the continuous phase clears the book
            side = rng.random() < 0.5
            ops.append(["L", side, (base + (width if side else -width)) * tick, rng.randint(4, 12), None, 1])
        ops.append(["T"])
    add_sweeps(rng, {"ops": ops})
    return {"tick": tick, "p0": base * tick, "auto": True, "mode": "deep-auction", "ops": ops,
            "fund_seed": rng.randrange(1 << 30), "scalars": None}


def gen_expiry_history(rng, tier):
    """books of 6-16 resting orders per side from which orders leave ONLY by expiry (from the tail, the middle or the
    head of whatever structure holds them), followed by a few more arrivals and a sweep from the other side; no
    cancels in between that would rebuild the structure."""
    tick = rng.choice([1.0, 0.5, 0.1, 10.0])
    base = rng.choice([100, 1000])
    ops = [["R", True]]
    for _ in range(rng.randint(2, 5)):
        side = rng.random() < 0.5
        width = rng.randint(4, 12)
        n = rng.choice([6, 8, 10, 12, 14, 16]) if rng.random() < 0.7 else rng.randint(5, 15)
        short = set(rng.sample(range(n), rng.randint(1, 3)))
        if rng.random() < 0.7:
            short = {n - 2} if rng.random() < 0.7 else {n - 2} | short    # among the last ones accepted
        ttl = rng.choice([1, 2, 3])
        far_tail = rng.random() < 0.6
        for i in range(n):
            lev = base + (-(rng.randint(1, width)) if side else rng.randint(1, width))
            if far_tail and i == n - 2 and i in short:
                # the short-lived order is the least attractive one: wherever the book keeps its orders, it sits at
                # the very end next to the last arrival
                lev = base + (-(width + 2) if side else (width + 2))
            ops.append(["L", side, lev * tick, rng.randint(1, 2), ttl if i in short else None, 0])
        for _ in range(ttl + 1):
            ops.append(["T"])
        for _ in range(rng.choice([0, 2, 2, 3, 4])):
            lev = base + (-(rng.randint(1, width + 3)) if side else rng.randint(1, width + 3))
            ops.append(["L", side, lev * tick, 1, None, 1])
        if rng.random() < 0.5:
            ops.append(["M", not side, rng.randint(2, 6), None, 2])
        else:
            ops.append(["SW", not side, rng.choice([0.2, 0.35, 0.5, 0.7])])
        if rng.random() < 0.5:
            ops.append(["M", not side, rng.randint(1, 4), None, 2])
        ops.append(["T"])
    add_sweeps(rng, {"ops": ops})
    return {"tick": tick, "p0": base * tick, "auto": True, "mode": "expiry-only", "ops": ops,
            "fund_seed": rng.randrange(1 << 30), "scalars": None}


def gen_churn_history(rng, tier):
    """accumulation: hundreds of short-lived orders with a lifetime that are cancelled or filled long before they
    would expire, next to a few resting orders whose expiry must still happen exactly on time."""
    tick = rng.choice([1.0, 0.5, 0.1])
    base = 1000
    ops = [["R", True]]
    n_sub = 0
    side = rng.random() < 0.5          # the side that is churned
    keepers = []
    for _ in range(rng.randint(2, 5)):   # long-lived resting orders with different lifetimes
        ops.append(["L", side, (base + (-(rng.randint(20, 40)) if side else rng.randint(20, 40))) * tick, rng.randint(1, 3),
                    rng.choice([5, 11, 23, 50, 90]), 0])
        n_sub += 1
    rounds = rng.randint(60, 220)
    for i in range(rounds):
        far = rng.randint(45, 60)
        ttl = rng.choice([30, 60, 120, 400])
        ops.append(["L", side, (base + (-far if side else far)) * tick, 1, ttl, 1])
        k = n_sub
        n_sub += 1
        r = rng.random()
        if r < 0.7:
            ops.append(["C", k])                      # cancelled long before its lifetime ends
        elif r < 0.85:
            ops.append(["L", not side, (base + (-far if side else far)) * tick, 1, 1, 2])   # filled instead
            n_sub += 1
        if rng.random() < 0.12:
            ops.append(["T"])
        if rng.random() < 0.03:
            ops.append(["L", side, (base + (-(rng.randint(20, 40)) if side else rng.randint(20, 40))) * tick, 1,
                        rng.choice([3, 7, 15]), 0])
            n_sub += 1
    for _ in range(rng.randint(10, 100)):
        ops.append(["T"])
        if rng.random() < 0.2:
            ops.append(["M", not side, 1, None, 3])   # a taker: whatever should have expired must not trade
            n_sub += 1
    return {"tick": tick, "p0": base * tick, "auto": True, "mode": "churn", "ops": ops,
            "fund_seed": rng.randrange(1 << 30), "scalars": None}


RF_FORMS = ["order_for_another_market", "resubmission", "cancel_of_another_markets_order", "cancel_of_unsubmitted_order",
            "resting_order_offered_to_another_market", "premature_cancel_then_submission"]


class DirectRun:
    def __init__(self, case):
        from pams.market import Market

        taps.install()
        self.case = case
        self.sim = SimStub()
        self.market = Market(market_id=0, prng=random.Random(case.get("fund_seed", 0)), simulator=self.sim, name="m0")
        self.market.setup({"tickSize": case["tick"], "marketPrice": case["p0"]})
        self.frng = random.Random(case.get("fund_seed", 0))
        self.fund = case["p0"]
        self.submitted = []
        self.op_index = -1

    def _next_fund(self):
        self.fund *= 1.0 + (self.frng.random() - 0.5) * 0.01
        return self.fund

    def start(self):
        self.market._update_time(next_fundamental_price=self._next_fund())

    def apply(self, op):
        """apply one operation to the real market; exceptions propagate to the caller."""
        from pams.order import LIMIT_ORDER, MARKET_ORDER, Cancel, Order

        m = self.market
        k = op[0]
        sc = self.case.get("scalars")
        if sc and k in ("L", "M", "LX"):
            # valid but unusual argument types: numpy scalars / ints where bools and ints are expected
            import numpy as np

            op = list(op)
            op[1] = np.bool_(op[1]) if sc == "numpy" else int(op[1])
            ti = {"L": 4, "M": 3}.get(k)
            if ti is not None and op[ti] is not None and sc == "numpy":
                op[ti] = np.int64(op[ti])
            if sc == "int" and k == "L" and float(op[2]).is_integer():
                op[2] = int(op[2])     # a whole-number price written as a Python int
            if sc == "numpy":
                if k == "L":
                    op[2], op[3] = np.float64(op[2]), np.int64(op[3])
                elif k == "M":
                    op[2] = np.int64(op[2])
        if k == "L":
            o = Order(agent_id=op[5], market_id=0, is_buy=op[1], kind=LIMIT_ORDER, volume=op[3], price=op[2], ttl=op[4])
            self.submitted.append(o)
            m._add_order(o)
            if self.case["auto"] and m.is_running:
                m._execution()
        elif k == "M":
            o = Order(agent_id=op[4], market_id=0, is_buy=op[1], kind=MARKET_ORDER, volume=op[2], ttl=op[3])
            self.submitted.append(o)
            m._add_order(o)
            if self.case["auto"] and m.is_running:
                m._execution()
        elif k == "C":
            if not self.submitted:
                return
            o = self.submitted[op[1] % len(self.submitted)]
            if o.order_id is None:
                return  # its acceptance failed earlier; nothing to cancel
            m._cancel_order(Cancel(order=o))
            if self.case["auto"] and m.is_running:
                m._execution()
        elif k == "LX":
            depth = (m.get_sell_order_book() if op[1] else m.get_buy_order_book())
            levels = [p for p in depth if p is not None]
            if not levels:
                return
            price = levels[min(op[2], len(levels) - 1)]
            o = Order(agent_id=op[4], market_id=0, is_buy=op[1], kind=LIMIT_ORDER, volume=op[3], price=price, ttl=None)
            self.submitted.append(o)
            m._add_order(o)
            if self.case["auto"] and m.is_running:
                m._execution()
        elif k in ("CB", "CR"):
            ob = m.buy_order_book if op[1] else m.sell_order_book
            if k == "CB":
                o = ob.get_best_order()
            else:
                rest = [x for x in self.submitted if x.is_buy == op[1] and x.order_id is not None and x.volume > 0
                        and not x.is_canceled and not (x.ttl is not None and x.placed_at + x.ttl < m.time)]
                o = rest[(len(rest) * 7 + self.op_index * 13) % len(rest)] if rest else None
            if o is None:
                return
            m._cancel_order(Cancel(order=o))
            if self.case["auto"] and m.is_running:
                m._execution()
        elif k == "T":
            m._update_time(next_fundamental_price=self._next_fund())
        elif k == "X":
            if m.is_running:
                m._execution()
        elif k == "SW":
            # one taker order that eats a given fraction of everything resting on the other side in ONE round
            depth = m.get_sell_order_book() if op[1] else m.get_buy_order_book()
            total = sum(depth.values())
            if total <= 0 or not m.is_running:
                return
            vol = max(1, min(total, int(total * op[2]) or 1))
            o = Order(agent_id=7, market_id=0, is_buy=op[1], kind=MARKET_ORDER, volume=vol, ttl=None)
            self.submitted.append(o)
            m._add_order(o)
            m._execution()
            taps.hits["sweep_of_a_fraction_of_one_side_in_one_round"] += 1
        elif k == "RF":
            form = op[1]
            old = self.submitted[op[2] % len(self.submitted)] if self.submitted else None
            try:
                if form == "order_for_another_market":
                    m._add_order(Order(agent_id=0, market_id=m.market_id + 7, is_buy=bool(op[2] % 2), kind=LIMIT_ORDER,
                                       volume=1 + op[2] % 3, price=m.get_market_price() + (op[2] % 5 - 2) * m.tick_size))
                elif form == "resubmission":
                    # preferably an order that is resting right now (its object sits in the book)
                    live = [x for x in self.submitted if x.order_id is not None and x.volume > 0 and not x.is_canceled
                            and not (x.ttl is not None and x.placed_at + x.ttl < m.time)]
                    if live and op[2] % 4 != 0:
                        old = live[op[2] % len(live)]
                    if old is None or old.order_id is None:
                        return
                    m._add_order(old)
                elif form == "resting_order_offered_to_another_market":
                    # a router that tries venues in turn: an order resting here is handed to a venue with a much
                    # coarser grid, which refuses it (it names this market)
                    if getattr(self, "coarse", None) is None:
                        from pams.market import Market

                        self.coarse = Market(market_id=m.market_id + 9, prng=random.Random(6), simulator=SimStub(), name="coarse")
                        self.coarse.setup({"tickSize": m.tick_size * 16, "marketPrice": self.case["p0"]})
                        self.coarse._update_time(next_fundamental_price=self.case["p0"])
                    live = [x for x in self.submitted if x.order_id is not None and x.volume > 0 and not x.is_canceled
                            and x.price is not None and not (x.ttl is not None and x.placed_at + x.ttl < m.time)]
                    if not live:
                        return
                    self.coarse._add_order(live[op[2] % len(live)])
                elif form == "premature_cancel_then_submission":
                    # a kill switch fired before its order went out: the cancel is refused, the order is then
                    # submitted normally and can be cancelled (for real) later by the ordinary cancel operations
                    is_buy = bool(op[2] % 2)
                    o = Order(agent_id=op[2] % 3, market_id=m.market_id, is_buy=is_buy, kind=LIMIT_ORDER,
                              volume=1 + op[2] % 4, ttl=(None, 6, 25)[op[2] % 3],
                              price=max(m.tick_size, m.get_market_price() + (-1 if is_buy else 1) * (op[2] % 5) * m.tick_size))
                    try:
                        m._cancel_order(Cancel(order=o))
                    except (ValueError, AssertionError):
                        taps.hits["refused_request:" + form] += 1
                    else:
                        taps.hits["REFUSAL-EXPECTED-BUT-ACCEPTED:" + form] += 1
                    taps.emit("refused_ret", mkt=m, running=m.is_running, form=form)
                    self.submitted.append(o)
                    m._add_order(o)
                    if self.case["auto"] and m.is_running:
                        m._execution()
                    return
                elif form == "cancel_of_another_markets_order":
                    if getattr(self, "other", None) is None:
                        from pams.market import Market

                        self.other = Market(market_id=m.market_id + 7, prng=random.Random(5), simulator=SimStub(), name="other")
                        self.other.setup({"tickSize": m.tick_size, "marketPrice": self.case["p0"]})
                        self.other._update_time(next_fundamental_price=self.case["p0"])
                    o = Order(agent_id=0, market_id=m.market_id + 7, is_buy=bool(op[2] % 2), kind=LIMIT_ORDER, volume=2,
                              price=self.case["p0"])
                    self.other._add_order(o)
                    m._cancel_order(Cancel(order=o))
                else:
                    m._cancel_order(Cancel(order=Order(agent_id=0, market_id=m.market_id, is_buy=bool(op[2] % 2),
                                                       kind=LIMIT_ORDER, volume=1, price=self.case["p0"])))
            except (ValueError, AssertionError):
                taps.hits["refused_request:" + form] += 1
            else:
                taps.hits["REFUSAL-EXPECTED-BUT-ACCEPTED:" + form] += 1
            # a quiescent point: a refused request must have left book, quotes and statistics as they were
            taps.emit("refused_ret", mkt=m, running=m.is_running, form=form)
        elif k == "XF":
            try:
                m._execution()
                taps.hits["forced_round_on_stopped_market_returned"] += 1
            except AssertionError:
                if m.is_running:
                    raise
                taps.hits["forced_round_on_stopped_market_refused"] += 1
        elif k == "R":
            m._is_running = bool(op[1])
            taps.emit("running_set", mkt=m, flag=bool(op[1]))
        else:
            raise ValueError("unknown op %r" % (op,))

    def run(self, on_op_exc=None, before_op=None, after_op=None):
        self.start()
        for i, op in enumerate(self.case["ops"]):
            self.op_index = i
            if before_op:
                before_op(i, op)
            try:
                self.apply(op)
            except Exception as e:  # noqa
                if on_op_exc is None:
                    raise
                if on_op_exc(i, op, e) == "stop":
                    return False
            if after_op:
                after_op(i, op)
        return True
