"""Runner drive: generated configurations run through the real SequentialRunner with
table-driven agents, a recording logger and probe events.

Everything in a case is JSON: {"drive":"runner","seed":int,"config":{...}}; agent programs and
probe hook tables are part of the configuration (keys "program" / "hooks"), interpreted at
run time with the component's own PRNG.
"""
import contextlib
import copy
import io
import random
import traceback

from . import taps

_classes = None


class HarnessError(Exception):
    pass


def classes():
    """define the scripted classes lazily (pams must be imported from /repo first)."""
    global _classes
    if _classes is not None:
        return _classes
    from pams.agents import Agent, HighFrequencyAgent
    from pams.events import EventABC, EventHook
    from pams.index_market import IndexMarket
    from pams.logs import Logger
    from pams.market import Market
    from pams.order import LIMIT_ORDER, MARKET_ORDER, Cancel, Order

    class _Script:
        def setup(self, settings, accessible_markets_ids, *args, **kwargs):
            super().setup(settings=settings, accessible_markets_ids=accessible_markets_ids)
            self.program = settings.get("program") or {"p_act": 0.0, "actions": []}
            self.my_orders = []
            self.n_consults = 0
            self.n_fills_seen = 0

        # -- interpretation of the program table -------------------------
        def _pick_market(self, markets, spec):
            acc = [m for m in markets if self.is_market_accessible(m.market_id)]
            if not acc:
                return None
            if isinstance(spec, int):
                return acc[spec % len(acc)]
            return self.prng.choice(acc)

        def _one(self, tpl, markets):
            a = tpl["a"]
            rng = self.prng
            if a == "nothing":
                return []
            if a in ("limit", "market"):
                m = self._pick_market(markets, tpl.get("market", "any"))
                if m is None:
                    return []
                side = tpl.get("side", "any")
                is_buy = rng.random() < 0.5 if side == "any" else side == "buy"
                lo, hi = tpl.get("vol", [1, 5])
                vol = rng.randint(lo, hi)
                ttl = rng.choice(tpl.get("ttl", [None]))
                sc = self.program.get("scalars")
                if sc:
                    # valid but unusual argument types (e.g. an agent computing its side with numpy)
                    import numpy as np

                    is_buy = np.bool_(is_buy) if sc == "numpy" else int(is_buy)
                    if ttl is not None and sc == "numpy":
                        ttl = np.int64(ttl)
                if a == "market":
                    return [Order(agent_id=self.agent_id, market_id=m.market_id, is_buy=is_buy, kind=MARKET_ORDER,
                                  volume=vol, ttl=ttl)]
                ref = tpl.get("ref", "market")
                if ref == "abs":
                    base = float(tpl["price"])
                elif ref == "p0":
                    base = m.get_market_price(0)
                else:
                    base = m.get_market_price()
                lo, hi = tpl.get("off", [-3, 3])
                off = rng.randint(lo, hi)
                price = base + off * m.tick_size
                if tpl.get("mult") is not None:
                    price = base * rng.choice(tpl["mult"])
                if rng.random() < tpl.get("offgrid", 0.0):
                    price += rng.random() * m.tick_size
                if price <= 0 and tpl.get("penny"):
                    # a positive price below one tick: a buy comes to rest at 0.0, a sell one tick above
                    price = rng.choice([0.25, 0.5, 0.75]) * m.tick_size
                if price <= 0:
                    price = 0.0 if (tpl.get("allow_zero") and price == 0) else m.tick_size
                if self.program.get("scalars") == "numpy":
                    import numpy as np

                    price, vol = np.float64(price), np.int64(vol)
                elif tpl.get("as_int") and price >= 1:
                    price = int(price)   # a whole-number price written as a Python int
                    taps.hits["limit_price_given_as_python_int"] += 1
                return [Order(agent_id=self.agent_id, market_id=m.market_id, is_buy=is_buy, kind=LIMIT_ORDER,
                              volume=vol, price=price, ttl=ttl)]
            if a == "both":  # quote both sides of one market: forces self-trades
                m = self._pick_market(markets, tpl.get("market", "any"))
                if m is None:
                    return []
                base = m.get_market_price()
                lo, hi = tpl.get("vol", [1, 5])
                d = rng.randint(*tpl.get("off", [-1, 1])) * m.tick_size
                ttl = rng.choice(tpl.get("ttl", [None]))
                pb = max(base + d, m.tick_size)
                ps = max(base - d, m.tick_size)
                return [
                    Order(agent_id=self.agent_id, market_id=m.market_id, is_buy=True, kind=LIMIT_ORDER,
                          volume=rng.randint(lo, hi), price=pb, ttl=ttl),
                    Order(agent_id=self.agent_id, market_id=m.market_id, is_buy=False, kind=LIMIT_ORDER,
                          volume=rng.randint(lo, hi), price=ps, ttl=ttl),
                ]
            if a == "cancel":
                if not self.my_orders:
                    return []
                which = tpl.get("which", "any")
                cands = [o for o in self.my_orders if o.order_id is not None]
                if tpl.get("only_uncancelled", False):
                    cands = [o for o in cands if not o.is_canceled]
                if not cands:
                    return []
                if which == "last":
                    o = cands[-1]
                elif which == "oldest":
                    o = cands[0]
                else:
                    o = rng.choice(cands)
                sent = self.__dict__.setdefault("sent_cancels", [])
                if self.program.get("resend_cancels") and sent and rng.random() < 0.35:
                    # a kill switch kept per order and sent again (the same Cancel object a second time)
                    taps.hits["same_cancel_object_sent_again"] += 1
                    return [rng.choice(sent)]
                c = Cancel(order=o)
                sent.append(c)
                return [c]
            # ---- hostile actions: the system must refuse these -----------
            if a == "resubmit":
                cands = [o for o in self.my_orders if o.order_id is not None]
                if not cands:
                    return []
                taps.emit("hostile", agent=self, what="resubmit", obj=cands[-1])
                return [cands[-1]]
            if a == "spoof":
                m = self._pick_market(markets, "any")
                others = [ag.agent_id for ag in self.simulator.agents if ag.agent_id != self.agent_id]
                if m is None or not others:
                    return []
                o = Order(agent_id=rng.choice(others), market_id=m.market_id, is_buy=True, kind=LIMIT_ORDER,
                          volume=1, price=m.get_market_price())
                taps.emit("hostile", agent=self, what="spoof", obj=o)
                return [o]
            if a == "foreign_cancel":
                for ag in self.simulator.agents:
                    if ag.agent_id != self.agent_id and getattr(ag, "my_orders", None):
                        cands = [o for o in ag.my_orders if o.order_id is not None]
                        if cands:
                            c = Cancel(order=cands[-1])
                            taps.emit("hostile", agent=self, what="foreign_cancel", obj=c)
                            return [c]
                return []
            raise ValueError("unknown action %r" % (a,))

        def _decide(self, markets):
            prog = self.program
            rng = self.prng
            if prog.get("only_at") is not None and markets[0].get_time() not in prog["only_at"]:
                return []
            if rng.random() >= prog.get("p_act", 1.0):
                return []
            acts = prog.get("actions", [])
            if not acts:
                return []
            n = rng.randint(1, prog.get("max_batch", 1))
            out = []
            ws = [w for w, _ in acts]
            for _ in range(n):
                tpl = rng.choices(acts, weights=ws)[0][1]
                out.extend(self._one(tpl, markets))
            return out

        # -- the user-code boundary --------------------------------------
        def _live_executed_order(self, log):
            taps.emit("cb", agent=self, what="executed", log=log, hold=self._hold())

        def submit_orders(self, markets):
            self.n_consults += 1
            if self.program.get("rebind") and self.n_fills_seen >= 1 and "executed_order" not in self.__dict__ \
                    and self.n_consults >= self.program["rebind"]:
                # a user agent may install another fill handler on its instance while the run is going on
                self.executed_order = self._live_executed_order
                taps.emit("handler_rebound", agent=self)
            taps.emit("consult_call", agent=self, hft=isinstance(self, HighFrequencyAgent), time=markets[0].get_time())
            out = self._decide(markets)
            for o in out:
                if isinstance(o, Order) and not any(x is o for x in self.my_orders):
                    self.my_orders.append(o)
            taps.emit(
                "consult_ret", agent=self, hft=isinstance(self, HighFrequencyAgent), orders=list(out),
                snaps=[taps.snap_order(o) if isinstance(o, Order) else {"cancel_of": taps.snap_order(o.order)} for o in out],
                time=markets[0].get_time(),
            )
            return out

        def _hold(self):
            return (self.cash_amount, dict(self.asset_volumes))

        def submitted_order(self, log):
            taps.emit("cb", agent=self, what="submitted", log=log, hold=self._hold())

        def canceled_order(self, log):
            taps.emit("cb", agent=self, what="canceled", log=log, hold=self._hold())

        def executed_order(self, log):
            self.n_fills_seen += 1
            if "executed_order" in self.__dict__:
                # this class-level handler has been replaced on the instance: a call here went to a stale handler
                taps.emit("cb_stale", agent=self, what="executed", log=log)
                return
            taps.emit("cb", agent=self, what="executed", log=log, hold=self._hold())

    class ScriptAgent(_Script, Agent):
        pass

    class ScriptHFTAgent(_Script, HighFrequencyAgent):
        pass

    class FalsyScriptAgent(ScriptAgent):
        """a user agent that is 'falsy' while it has submitted nothing."""

        def __len__(self):
            return len(self.my_orders)

    class RecordingLogger(Logger):
        """records what reaches the logger, at the Logger API boundary."""

        def __init__(self):
            super().__init__()
            self.received = []    # every log handed to write/bulk_write/direct
            self.processed = []   # every log delivered to a process_* method

        def write(self, log):
            self.received.append(log)
            taps.emit("log_write", log=log, via="write")
            super().write(log)

        def bulk_write(self, logs):
            for log in logs:
                self.received.append(log)
                taps.emit("log_write", log=log, via="bulk_write")
            super().bulk_write(logs)

        def write_and_direct_process(self, log):
            self.received.append(log)
            taps.emit("log_write", log=log, via="direct")
            super().write_and_direct_process(log)
            taps.emit("log_direct_done", log=log)

        def bulk_write_and_direct_process(self, logs):
            for log in logs:
                self.received.append(log)
                taps.emit("log_write", log=log, via="bulk_direct")
            super().bulk_write_and_direct_process(logs)

        def _p(self, log, kind):
            self.processed.append(log)
            taps.emit("log_process", log=log, kind=kind)

        def process_order_log(self, log):
            self._p(log, "order")

        def process_cancel_log(self, log):
            self._p(log, "cancel")

        def process_expiration_log(self, log):
            self._p(log, "expiration")

        def process_execution_log(self, log):
            self._p(log, "execution")

        def process_simulation_begin_log(self, log):
            self._p(log, "sim_begin")

        def process_simulation_end_log(self, log):
            self._p(log, "sim_end")

        def process_session_begin_log(self, log):
            self._p(log, "sess_begin")

        def process_session_end_log(self, log):
            self._p(log, "sess_end")

        def process_market_step_begin_log(self, log):
            self._p(log, "step_begin")

        def process_market_step_end_log(self, log):
            self._p(log, "step_end")

    class DepthMarket(Market):
        """a user-written market class that is 'falsy' while its book is empty (len = resting orders)."""

        def __len__(self):
            return len(self.buy_order_book) + len(self.sell_order_book)

    class DrawingMarket(Market):
        """a user-written market class that draws two attributes from the generator the runner gave it (the way
        samples/market_share draws a trade volume in setup)."""

        def __init__(self, market_id, prng, simulator, name, *args, **kwargs):
            super().__init__(market_id, prng, simulator, name, *args, **kwargs)
            self.my_generator = prng      # (the constructor argument, kept under a name of the user's own)

        def setup(self, settings, *args, **kwargs):
            super().setup(settings, *args, **kwargs)
            self.lot_size = self.my_generator.randint(1, 10 ** 6)
            self.opening_noise = self.my_generator.random()
            taps.hits["user_market_class_drew_from_its_own_generator"] += 1

    class BatchRecordingLogger(Logger):
        """a logger that takes the records from the batches handed to process() (the documented place to control the
        sequence) and defines just one of the optional per-kind handlers."""

        def __init__(self):
            super().__init__()
            self.received = []
            self.processed = []

        def write(self, log):
            self.received.append(log)
            taps.emit("log_write", log=log, via="write")
            super().write(log)

        def bulk_write(self, logs):
            for log in logs:
                self.received.append(log)
                taps.emit("log_write", log=log, via="bulk_write")
            super().bulk_write(logs)

        def write_and_direct_process(self, log):
            self.received.append(log)
            taps.emit("log_write", log=log, via="direct")
            super().write_and_direct_process(log)
            taps.emit("log_direct_done", log=log)

        def bulk_write_and_direct_process(self, logs):
            for log in logs:
                self.received.append(log)
                taps.emit("log_write", log=log, via="bulk_direct")
            super().bulk_write_and_direct_process(logs)

        def process(self, logs):
            for log in logs:
                self.processed.append(log)
                taps.emit("log_process", log=log, kind="batch")
            super().process(logs)

        def process_market_step_end_log(self, log):
            self.n_step_ends = getattr(self, "n_step_ends", 0) + 1

    class FalsyRecordingLogger(RecordingLogger):
        """a logger that is 'falsy' while it has processed nothing (e.g. a saver exposing its number of rows)."""

        def __len__(self):
            return sum(1 for l in self.processed if type(l).__name__ in ("OrderLog", "CancelLog", "ExecutionLog", "ExpirationLog"))

    class ProbeEvent(EventABC):
        """user-written event with a generated hook table; records every hooked_* call."""

        def setup(self, settings, *args, **kwargs):
            self.hook_specs = settings.get("hooks", [])
            self.alter = settings.get("alter")          # {"ticks": k}: before-order hook shifts the pending price
            self.fund_changes = settings.get("fundChanges", [])  # performed "now" in before-step hooks
            self.relative = settings.get("relativeTimes", False)
            self.session_actions = settings.get("sessionActions")   # {"before": ["order", "cancel"], "after": [...]}
            self.hooks = []

        def hook_registration(self):
            out = []
            base = self.session.session_start_time if self.relative else 0
            for spec in self.hook_specs:
                t = spec.get("time")
                if t is not None:
                    t = [base + x for x in t]
                cls = {None: None, "Market": Market, "IndexMarket": IndexMarket}[spec.get("cls")]
                inst = spec.get("instance")
                if inst is not None:
                    inst = self.simulator.name2market[inst]
                h = EventHook(event=self, hook_type=spec["type"], is_before=spec["before"], time=t,
                              specific_class=cls, specific_instance=inst)
                h.spec = spec
                h.intended_time = t     # what the event asked for (the hook object may store it differently)
                out.append(h)
            self.hooks = out
            taps.emit("probe_registered", event=self, hooks=out)
            return out

        def __len__(self):
            # a user event may define __len__ (here: number of hooks it fired so far): falsy at first
            return self.n_fired

        n_fired = 0

        def _rec(self, what, **kw):
            self.n_fired += 1
            taps.emit("hook", event=self, what=what, **kw)

        def hooked_before_order(self, simulator, order):
            self._rec("order_before", order=order, snap=taps.snap_order(order),
                      mtime=simulator.id2market[order.market_id].get_time())
            if self.alter and order.price is not None:
                m = simulator.id2market[order.market_id]
                order.price = order.price + self.alter["ticks"] * m.tick_size
                taps.emit("altered", event=self, order=order, new_price=order.price)

        def hooked_after_order(self, simulator, order_log):
            self._rec("order_after", log=order_log)

        def hooked_before_cancel(self, simulator, cancel):
            self._rec("cancel_before", cancel=cancel, snap=taps.snap_order(cancel.order),
                      cancel_placed_at=cancel.placed_at,
                      mtime=simulator.id2market[cancel.order.market_id].get_time())

        def hooked_after_cancel(self, simulator, cancel_log):
            self._rec("cancel_after", log=cancel_log)

        def hooked_after_execution(self, simulator, execution_log):
            self._rec("execution_after", log=execution_log)

        def hooked_before_session(self, simulator, session):
            self._rec("session_before", session=session,
                      mtimes=[m.get_time() for m in simulator.markets])
            self._session_actions(simulator, "before")

        def _session_actions(self, simulator, when):
            """an event that acts on the markets when a session opens or closes (an opening auction feed, a
            clean-up of resting orders): it submits / cancels the way the runner does, callbacks included."""
            acts = self.session_actions or {}
            if not acts.get(when):
                return
            from pams.order import LIMIT_ORDER, Cancel, Order

            agents = [a for a in simulator.agents if type(a).__name__.startswith(("Script", "FalsyScript"))]
            for m in simulator.markets:
                if hasattr(m, "get_components"):
                    continue
                owner = next((a for a in agents if a.is_market_accessible(m.market_id)), None)
                if owner is None:
                    continue
                if "cancel" in acts[when]:
                    for ob in (m.buy_order_book, m.sell_order_book):
                        for o in sorted(ob.priority_queue)[:3]:
                            if o.agent_id == owner.agent_id:
                                log = m._cancel_order(Cancel(order=o))
                                owner.canceled_order(log)
                                taps.hits["session_hook_cancelled_a_resting_order"] += 1
                if "order" in acts[when]:
                    far = max(m.get_market_price() * 0.5, m.tick_size)
                    o = Order(agent_id=owner.agent_id, market_id=m.market_id, is_buy=True, kind=LIMIT_ORDER, volume=1,
                              price=far, ttl=acts.get("ttl", 2))
                    log = m._add_order(o)
                    owner.submitted_order(log)
                    if hasattr(owner, "my_orders"):
                        owner.my_orders.append(o)
                    taps.hits["session_hook_submitted_an_order"] += 1

        def hooked_after_session(self, simulator, session):
            self._rec("session_after", session=session,
                      mtimes=[m.get_time() for m in simulator.markets])
            self._session_actions(simulator, "after")

        def hooked_before_step_for_market(self, simulator, market):
            self._rec("market_before", market=market, mtime=market.get_time(),
                      mtimes=[m.get_time() for m in simulator.markets])
            for ch in self.fund_changes:
                if ch["time"] == market.get_time() and ch["at_market"] == market.name and not ch.get("done"):
                    ch["done"] = True
                    f = simulator.fundamentals
                    mid = simulator.name2market[ch["market"]].market_id
                    taps.emit("fund_change_call", sim=simulator, change=ch, time=market.get_time())
                    if ch["what"] == "volatility" and ch.get("default_time"):
                        f.change_volatility(market_id=mid, volatility=ch["value"])     # effective time defaults to 0
                    elif ch["what"] == "drift" and ch.get("default_time"):
                        f.change_drift(market_id=mid, drift=ch["value"])
                    elif ch["what"] == "volatility":
                        f.change_volatility(market_id=mid, volatility=ch["value"], time=market.get_time())
                    elif ch["what"] == "drift":
                        f.change_drift(market_id=mid, drift=ch["value"], time=market.get_time())
                    elif ch["what"] == "shock":
                        simulator.name2market[ch["market"]].change_fundamental_price(scale=ch["value"])
                    elif ch["what"] == "shares":
                        simulator.name2market[ch["market"]].outstanding_shares = ch["value"]
                    elif ch["what"] == "ensure_component":
                        # "make sure this market is a constituent": the add is refused for one that already is
                        try:
                            simulator.name2market[ch["index"]]._add_market(simulator.name2market[ch["market"]])
                            taps.hits["REFUSAL-EXPECTED-BUT-ACCEPTED:duplicate_component"] += 1
                        except ValueError:
                            taps.hits["refused_request:duplicate_component_then_normal_use"] += 1
                    taps.emit("fund_change_ret", sim=simulator, change=ch, time=market.get_time())

        def hooked_after_step_for_market(self, simulator, market):
            self._rec("market_after", market=market, mtime=market.get_time(),
                      mtimes=[m.get_time() for m in simulator.markets])

    class DerivedProbeEvent(ProbeEvent):
        """a user event built on another user event: it only extends setup(); every handler is inherited."""

        def setup(self, settings, *args, **kwargs):
            super().setup(settings, *args, **kwargs)
            self.derived = True
            taps.hits["event_subclass_inheriting_every_handler_set_up"] += 1

    def retry_of(base):
        """the built-in event, set up the way a user script does it after a typo: the first attempt (settings with
        one flaw, refused by design) and then the corrected settings go to the same object."""

        class Retry(base):
            def setup(self, settings, *args, **kwargs):
                first = settings.get("firstAttempt")
                good = {k: v for k, v in settings.items() if k != "firstAttempt"}
                if first is not None:
                    try:
                        base.setup(self, first, *args, **kwargs)
                        taps.emit("first_attempt", event=self, refused=False, exc=None)
                    except Exception as e:  # noqa
                        taps.emit("first_attempt", event=self, refused=True, exc=e)
                return base.setup(self, good, *args, **kwargs)

        if base.__name__ == "TradingHaltRule":
            # ... and, like a user class that keeps statistics, it re-defines ONE of the two handlers (delegating to the
            # bundled one) and inherits the other
            def hooked_after_execution(self, simulator, execution_log):
                taps.hits["user_rule_handler_delegating_to_the_bundled_one"] += 1
                return base.hooked_after_execution(self, simulator, execution_log)

            Retry.hooked_after_execution = hooked_after_execution
        Retry.__name__ = Retry.__qualname__ = "Retry" + base.__name__
        return Retry

    from pams.events import FundamentalPriceShock, OrderMistakeShock, PriceLimitRule, TradingHaltRule

    def extending_of(base):
        """a user rule built on a bundled one: after the bundled setup it adds further markets to the rule's public
        target_markets dict (e.g. resolved from a group name)."""

        class Extending(base):
            def setup(self, settings, *args, **kwargs):
                extra = settings.get("extraTargets", [])
                base.setup(self, {k: v for k, v in settings.items() if k != "extraTargets"}, *args, **kwargs)
                for name in extra:
                    self.target_markets[name] = self.simulator.name2market[name]
                taps.hits["rule_subclass_adding_targets_after_the_bundled_setup"] += 1

        Extending.__name__ = Extending.__qualname__ = "Extending" + base.__name__
        return Extending

    extendings = {"Extending" + b.__name__: extending_of(b) for b in (PriceLimitRule, TradingHaltRule)}

    class UserIndexMarket(IndexMarket):
        """a user-registered subclass of the index market that keeps every documented meaning (it only counts)."""

        def setup(self, settings, *args, **kwargs):
            super().setup(settings, *args, **kwargs)
            self.n_index_queries = 0
            taps.hits["user_subclass_of_the_index_market_set_up"] += 1

    retries = {"Retry" + b.__name__: retry_of(b)
               for b in (FundamentalPriceShock, OrderMistakeShock, PriceLimitRule, TradingHaltRule)}
    _classes = {
        **retries,
        **extendings,
        "UserIndexMarket": UserIndexMarket,
        "ScriptAgent": ScriptAgent,
        "ScriptHFTAgent": ScriptHFTAgent,
        "RecordingLogger": RecordingLogger,
        "FalsyRecordingLogger": FalsyRecordingLogger,
        "BatchRecordingLogger": BatchRecordingLogger,
        "DepthMarket": DepthMarket,
        "DrawingMarket": DrawingMarket,
        "FalsyScriptAgent": FalsyScriptAgent,
        "ProbeEvent": ProbeEvent,
        "DerivedProbeEvent": DerivedProbeEvent,
    }
    return _classes


# ---------------------------------------------------------------------------
# running a case
# ---------------------------------------------------------------------------
class RunOut:
    def __init__(self):
        self.runner = None
        self.simulator = None
        self.logger = None
        self.error = None
        self.tb = None
        self.fills = []       # ExecutionLog objects returned by matching rounds (ground truth)
        self.accepts = []     # (OrderLog, order object)
        self.cancels = []     # (CancelLog, Cancel object)
        self.callbacks = []   # (agent_id, kind, log, holdings)
        self.consults = []    # consult_ret events
        self.phase = "init"
        self.first_attempts = []  # (event name, refused?, exception) of events set up twice


def install_runner_taps():
    from pams.runners.sequential import SequentialRunner

    if getattr(SequentialRunner, "_pamsmon_wrapped", False):
        return

    def mk(name):
        def make(orig):
            def f(self, *a, **kw):
                taps.hits["runner" + name] += 1
                taps.emit("runner%s_call" % name, runner=self)
                r = orig(self, *a, **kw)
                taps.emit("runner%s_ret" % name, runner=self)
                return r

            return f

        return make

    taps._wrap(SequentialRunner, "_setup", mk("_setup"))
    taps._wrap(SequentialRunner, "_run", mk("_run"))
    SequentialRunner._pamsmon_wrapped = True


def run_runner_case(case, sinks=(), with_logger=True, extra_classes=(), settings_obj=None, main=True):
    """run one case through the real runner; returns RunOut.  Exceptions from pams are captured
    in out.error (the property's monitor decides what they mean)."""
    from pams.runners.sequential import SequentialRunner

    taps.install()
    install_runner_taps()
    cls = classes()
    out = RunOut()

    def collect(ev):
        k = ev["k"]
        if k == "exec_ret":
            out.fills.extend(ev["logs"])
        elif k == "add_ret":
            out.accepts.append((ev["log"], ev["order"]))
        elif k == "cancel_ret":
            out.cancels.append((ev["log"], ev["cancel"]))
        elif k == "cb":
            out.callbacks.append((ev["agent"].agent_id, ev["what"], ev["log"], ev["hold"]))
        elif k == "consult_ret":
            out.consults.append(ev)
        elif k == "runner_setup_ret":
            out.phase = "setup-done"
            if case.get("permute_agent_ids"):
                # the same population as a hand-assembled Simulator would have it: ids are unique but are not
                # the registration positions (here: reversed)
                sim = ev["runner"].simulator
                n = len(sim.agents)
                for a in sim.agents:
                    a.agent_id = n - 1 - a.agent_id
                sim.id2agent = {a.agent_id: a for a in sim.agents}
        elif k == "first_attempt":
            out.first_attempts.append((ev["event"].name, ev["refused"], repr(ev["exc"])))
            taps.hits["event_set_up_again_after_%s_first_attempt" % ("refused" if ev["refused"] else "ACCEPTED")] += 1
        elif k == "runner_run_call":
            out.phase = "running"
        elif k == "runner_run_ret":
            out.phase = "finished"

    all_sinks = [collect] + list(sinks)
    for s in all_sinks:
        taps.add_sink(s)
    try:
        settings = settings_obj if settings_obj is not None else copy.deepcopy(case["config"])
        out.logger = (cls[{"falsy": "FalsyRecordingLogger", "batch": "BatchRecordingLogger"}.get(
            case.get("logger_kind"), "RecordingLogger")]() if with_logger else None)
        try:
            runner = SequentialRunner(settings=settings, prng=random.Random(case["seed"]), logger=out.logger)
            out.runner = runner
            out.simulator = runner.simulator
            for v in settings.values() if settings_obj is None else ():
                if isinstance(v, dict) and "firstAttempt" in v and not str(v.get("class", "")).startswith("Retry"):
                    v["class"] = "Retry" + v["class"]
                if isinstance(v, dict) and v.get("derived") and v.get("class") == "ProbeEvent":
                    v["class"] = "DerivedProbeEvent"
                if isinstance(v, dict) and "extraTargets" in v and v.get("class") in ("PriceLimitRule", "TradingHaltRule"):
                    v["class"] = "Extending" + v["class"]
                if isinstance(v, dict) and v.get("userSubclass") and v.get("class") == "IndexMarket":
                    v["class"] = "UserIndexMarket"
            if settings_obj is None:
                expand_via_extends(settings)
            if case.get("decoy_classes"):
                # another experiment of the same process: classes with the same names but other behaviour
                cls = dict(cls)
                for nm in ("ScriptAgent", "ScriptHFTAgent", "FalsyScriptAgent"):
                    cls[nm] = type(nm, (cls[nm],), {"submit_orders": lambda self, markets: []})
            for c in (cls["ScriptAgent"], cls["ScriptHFTAgent"], cls["ProbeEvent"], cls["DerivedProbeEvent"], cls["DepthMarket"],
                      cls["DrawingMarket"], cls["FalsyScriptAgent"]) + tuple(v for k, v in cls.items() if k.startswith(("Retry", "Extending", "UserIndex"))) \
                    + tuple(extra_classes):
                runner.class_register(c)
            buf = io.StringIO()
            with contextlib.redirect_stdout(buf):
                if main:
                    runner.main()
                else:
                    runner._setup()
                    runner._run()
        except Exception as e:  # noqa
            out.error = e
            out.tb = traceback.format_exc()
            tb = e.__traceback__
            while tb.tb_next is not None:
                tb = tb.tb_next
            origin = tb.tb_frame.f_code.co_filename
            out.error_origin = origin
            if "/pamsmon/" in origin and not getattr(e, "_pamsmon_deliberate", False):
                raise HarnessError("exception raised inside the harness, not pams:\n" + out.tb) from e
            taps.emit("run_aborted", exc=e, tb=out.tb)
    finally:
        for s in all_sinks:
            taps.remove_sink(s)
    return out


# ---------------------------------------------------------------------------
# generation
# ---------------------------------------------------------------------------
TICKS_RUNNER = [1.0, 0.5, 0.25, 2.0, 10.0, 0.1, 0.01]
TTL_RUNNER = [None, None, 1, 2, 3, 5, 7, 30]


def gen_program(rng, style="mixed", hostile=None):
    """a generated agent program (table of weighted action templates)."""
    ttl = rng.sample(TTL_RUNNER, rng.randint(1, 4))
    spread = rng.randint(1, 6)
    acts = []
    acts.append([rng.choice([3, 6, 10]), {"a": "limit", "side": "any", "off": [-spread, spread],
                                          "vol": [1, rng.choice([1, 3, 9, 40])], "ttl": ttl,
                                          "offgrid": rng.choice([0.0, 0.0, 0.3]),
                                          "as_int": rng.random() < 0.1}])
    if style in ("mixed", "aggressive"):
        acts.append([rng.choice([0, 1, 2]), {"a": "market", "side": "any", "vol": [1, 4], "ttl": ttl}])
        acts.append([rng.choice([0, 1, 3]), {"a": "cancel", "which": rng.choice(["any", "last", "oldest"])}])
        acts.append([rng.choice([0, 1, 2]), {"a": "both", "off": [-2, 2], "vol": [1, 5], "ttl": ttl}])
        acts.append([rng.choice([0, 1]), {"a": "nothing"}])
    acts = [a for a in acts if a[0] > 0]
    prog = {"p_act": rng.choice([0.3, 0.6, 0.9, 1.0]), "max_batch": rng.choice([1, 1, 2, 4]), "actions": acts}
    if rng.random() < 0.1:
        prog["scalars"] = rng.choice(["numpy", "int"])
    if rng.random() < 0.15:
        prog["resend_cancels"] = True
    if hostile:
        prog["actions"].append([hostile.get("weight", 2), {"a": hostile["a"]}])
    return prog


def gen_sessions(rng, tier, n=None, steps=None, flags=None):
    n = n or rng.choice([1, 2, 2, 3, 4])
    out = []
    for i in range(n):
        if flags is not None:
            place, execu = flags[i % len(flags)]
        else:
            place, execu = rng.choice([(True, True), (True, True), (True, True), (True, False), (False, False), (False, True)])
        st = steps[i % len(steps)] if steps else rng.choice([1, 2, 5, 10, 20, 40])
        s = {
            "sessionName": i,
            "iterationSteps": st,
            "withOrderPlacement": place,
            "withOrderExecution": execu,
            "withPrint": rng.random() < 0.5,
        }
        if rng.random() < 0.8:
            s["maxNormalOrders"] = rng.choice([0, 1, 2, 3, 5, 8])
        if rng.random() < 0.7:
            s["maxHighFrequencyOrders"] = rng.choice([0, 1, 2, 5])
        if rng.random() < 0.6:
            s["highFrequencySubmitRate"] = rng.choice([0.0, 0.3, 0.7, 1.0])
        out.append(s)
    return out


def gen_runner_case(rng, tier, profile="matching", **kw):
    """generate a full configuration.  Profiles only bias the generator; every profile yields a
    valid configuration."""
    n_spot = kw.get("n_spot") or rng.choice([1, 1, 2, 3])
    if "n_spot" not in kw and rng.random() < 0.04:
        n_spot = rng.choice([11, 12, 13])    # two-digit market ids and names
    with_index = kw.get("with_index", rng.random() < 0.3 and n_spot >= 2)
    cfg = {"simulation": {"markets": [], "agents": [], "sessions": []}}
    spot_names = []
    for i in range(n_spot):
        name = "S%d" % i
        tick = rng.choice(TICKS_RUNNER)
        p = rng.choice([50, 300, 1000]) * tick
        if rng.random() < 0.08:
            p = rng.choice([10 ** 9 + 7, 3 * 10 ** 9]) * tick   # very fine grid relative to the price level
        cfg[name] = {
            "class": "Market",
            "tickSize": tick,
            "marketPrice": p,
            "outstandingShares": rng.choice([1000, 2500, 25000]),
        }
        if rng.random() < 0.1:
            cfg[name]["class"] = "DepthMarket"   # user-registered Market subclass defining __len__
        if rng.random() < 0.5:
            cfg[name]["fundamentalVolatility"] = rng.choice([0.0, 0.001, 0.01])
            cfg[name]["fundamentalDrift"] = rng.choice([0.0, 0.0, 0.0005, -0.0005])
        cfg["simulation"]["markets"].append(name)
        spot_names.append(name)
    all_markets = list(spot_names)
    if with_index:
        tick = rng.choice([1.0, 0.5, 0.1])
        comps = spot_names if rng.random() < 0.7 else spot_names[: max(2, n_spot - 1)]
        tot = sum(cfg[c]["outstandingShares"] for c in comps)
        p = sum(cfg[c]["marketPrice"] * cfg[c]["outstandingShares"] for c in comps) / tot
        cfg["IDX"] = {"class": "IndexMarket", "tickSize": tick, "marketPrice": p, "markets": list(comps),
                      "outstandingShares": rng.choice([1000, 5000])}
        if rng.random() < 0.2:
            cfg["IDX"]["userSubclass"] = True
        cfg["simulation"]["markets"].append("IDX")
        all_markets.append("IDX")
    # agents
    n_groups = rng.choice([1, 2, 2, 3])
    for g in range(n_groups):
        name = "A%d" % g
        mk = all_markets if rng.random() < 0.6 else rng.sample(all_markets, rng.randint(1, len(all_markets)))
        ag = {
            "class": "ScriptAgent" if rng.random() < 0.85 else "FalsyScriptAgent",
            "markets": list(mk),
            "cashAmount": rng.choice([10000, 1e6, {"uniform": [1000, 5000]}]),
            "assetVolume": rng.choice([50, 0, {"uniform": [10, 90]}]),
            "program": gen_program(rng, kw.get("style", "mixed")),
        }
        n = rng.randint(1, 6)
        if rng.random() < 0.3 and n >= 1:
            ag["from"], ag["to"] = 10 * g, 10 * g + n - 1
            if n == 2 and not kw.get("allow_range2", False):
                ag["to"] += 1  # ranges of length 2 are exercised by C18 only
        else:
            ag["numAgents"] = n
        cfg[name] = ag
        cfg["simulation"]["agents"].append(name)
    n_hft = kw.get("n_hft", rng.choice([0, 0, 1, 2, 4]))
    if n_hft:
        cfg["H"] = {
            "class": "ScriptHFTAgent",
            "numAgents": n_hft,
            "markets": list(all_markets),
            "cashAmount": 50000,
            "assetVolume": 20,
            "program": gen_program(rng, kw.get("style", "mixed")),
        }
        cfg["simulation"]["agents"].append("H")
    cfg["simulation"]["sessions"] = gen_sessions(rng, tier, n=kw.get("n_sessions"), steps=kw.get("steps"),
                                                 flags=kw.get("flags"))
    if profile == "matching":
        # make sure there is trading: at least one placement+execution session
        if not any(s["withOrderPlacement"] and s["withOrderExecution"] for s in cfg["simulation"]["sessions"]):
            s = cfg["simulation"]["sessions"][-1]
            s["withOrderPlacement"] = s["withOrderExecution"] = True
        for s in cfg["simulation"]["sessions"]:
            if s.get("maxNormalOrders") == 0 and rng.random() < 0.8:
                s["maxNormalOrders"] = 3
    if kw.get("clipped"):
        # a price limit rule on every market and agents (normal and high-frequency) quoting far outside its band:
        # many orders are clipped onto the same edge price, where only time priority separates them
        r = rng.choice([0.01, 0.02, 0.05])
        cfg["CLIP"] = {"class": "PriceLimitRule", "targetMarkets": list(all_markets), "triggerChangeRate": r}
        cfg["simulation"]["sessions"][0].setdefault("events", []).append("CLIP")
        far = [1 - 6 * r, 1 - 2 * r, 1 - r, 1 + r, 1 + 2 * r, 1 + 6 * r]
        if "H" not in cfg:
            cfg["H"] = {"class": "ScriptHFTAgent", "numAgents": 2, "markets": list(all_markets), "cashAmount": 50000,
                        "assetVolume": 20, "program": gen_program(rng, "mixed")}
            cfg["simulation"]["agents"].append("H")
        for k, v in cfg.items():
            if isinstance(v, dict) and "program" in v:
                v["program"]["actions"].append([8, {"a": "limit", "side": "any", "ref": "p0", "mult": far,
                                                    "vol": [1, 3], "ttl": [None, 4, 9]}])
                v["program"]["p_act"] = max(v["program"].get("p_act", 0.5), 0.8)
        for s in cfg["simulation"]["sessions"]:
            s["maxHighFrequencyOrders"] = max(s.get("maxHighFrequencyOrders", 1), 2)
            s["highFrequencySubmitRate"] = 1.0
    return {"drive": "runner", "seed": rng.randrange(1 << 31), "config": cfg, "profile": profile}


def gen_big_auction_case(rng):
    """a call auction with several hundred participants: one placement-only step in which 220-300 agents each leave one
    one-lot order, all of them crossing (buys at or above, sells at or below the time-0 price, over 40 price levels);
    the first round of the next session matches more than a hundred pairs between more than two hundred parties."""
    n = rng.choice([220, 260, 300])
    tick = rng.choice([1.0, 0.5])
    cfg = {"simulation": {"markets": ["S0"], "agents": ["CROWD"], "sessions": [
        {"sessionName": 0, "iterationSteps": 1, "withOrderPlacement": True, "withOrderExecution": False, "withPrint": False,
         "maxNormalOrders": n},
        {"sessionName": 1, "iterationSteps": rng.choice([3, 5]), "withOrderPlacement": True, "withOrderExecution": True,
         "withPrint": False, "maxNormalOrders": 3}]},
        "S0": {"class": "Market", "tickSize": tick, "marketPrice": 300 * tick, "outstandingShares": 1000},
        "CROWD": {"class": "ScriptAgent", "numAgents": n, "markets": ["S0"], "cashAmount": 100000, "assetVolume": 50,
                  "program": {"p_act": 1.0, "max_batch": 1, "actions": [
                      [1, {"a": "limit", "side": "buy", "ref": "p0", "off": [0, 40], "vol": [1, 1], "ttl": [None]}],
                      [1, {"a": "limit", "side": "sell", "ref": "p0", "off": [-40, 0], "vol": [1, 1], "ttl": [None]}]]}}}
    return {"drive": "runner", "seed": rng.randrange(1 << 31), "config": cfg, "profile": "accounting", "big_auction": True}


def gen_accounting_case(rng, tier, hostile=None, hft=None, hostile_hft=False, penny=None, auction=False):
    """workload for the life-cycle monitors: several markets, normal and HFT scripted agents that cancel
    (resting, partly filled, filled, expired, already cancelled orders), quote both sides (self-trades),
    short and absent ttl, placement-only sessions followed by execution sessions (batch clearing)."""
    n_spot = rng.choice([1, 2, 2, 3])
    cfg = {"simulation": {"markets": [], "agents": [], "sessions": []}}
    names = []
    for i in range(n_spot):
        tick = rng.choice([1.0, 0.5, 0.25, 0.1, 10.0])
        cfg["S%d" % i] = {"class": "Market", "tickSize": tick, "marketPrice": rng.choice([40, 200, 900]) * tick,
                          "outstandingShares": rng.choice([1000, 3000])}
        if rng.random() < 0.4:
            cfg["S%d" % i]["fundamentalVolatility"] = 0.002
        names.append("S%d" % i)
    cfg["simulation"]["markets"] = list(names)
    if n_spot >= 2 and rng.random() < 0.3:
        tot = sum(cfg[c]["outstandingShares"] for c in names)
        cfg["IDX"] = {"class": "IndexMarket", "tickSize": 0.5,
                      "marketPrice": sum(cfg[c]["marketPrice"] * cfg[c]["outstandingShares"] for c in names) / tot,
                      "markets": list(names), "outstandingShares": 1000}
        cfg["simulation"]["markets"].append("IDX")
        names = names + ["IDX"]
    ttl = [None, 1, 1, 2, 3, 5]

    def prog():
        sp = rng.randint(1, 4)
        acts = [
            [8, {"a": "limit", "side": "any", "off": [-sp, sp], "vol": [1, rng.choice([2, 6, 20])], "ttl": ttl,
                 "offgrid": rng.choice([0.0, 0.2])}],
            [rng.choice([1, 2]), {"a": "market", "side": "any", "vol": [1, 4], "ttl": ttl}],
            [rng.choice([1, 3, 5]), {"a": "cancel", "which": rng.choice(["any", "any", "last", "oldest"])}],
            [rng.choice([0, 2, 4]), {"a": "both", "off": [-2, 2], "vol": [1, 6], "ttl": ttl}],
            [1, {"a": "nothing"}],
        ]
        pr = {"p_act": rng.choice([0.5, 0.8, 1.0]), "max_batch": rng.choice([1, 2, 3, 5]),
              "actions": [a for a in acts if a[0] > 0]}
        if rng.random() < 0.1:
            pr["scalars"] = rng.choice(["numpy", "int"])
        if rng.random() < 0.1:
            pr["rebind"] = rng.randint(2, 12)
        if rng.random() < 0.2:
            pr["resend_cancels"] = True
        return pr

    for g in range(rng.choice([1, 2, 3])):
        mk = names if rng.random() < 0.7 else rng.sample(names, rng.randint(1, len(names)))
        cfg["A%d" % g] = {"class": "ScriptAgent" if rng.random() < 0.85 else "FalsyScriptAgent",
                          "numAgents": rng.randint(1, 5), "markets": list(mk),
                          "cashAmount": rng.choice([10000, {"uniform": [100, 100000]}]),
                          "assetVolume": rng.choice([0, 30, {"uniform": [0, 100]}]), "program": prog()}
        cfg["simulation"]["agents"].append("A%d" % g)
    if (rng.random() < 0.1) if penny is None else penny:
        # a penny market: quotes below one tick rest at 0.0 and trade there (fills that move no cash)
        pm = names[0]
        cfg[pm]["marketPrice"] = cfg[pm]["tickSize"] * rng.choice([1, 1, 2])
        cfg[pm].pop("fundamentalVolatility", None)
        for k, v in cfg.items():
            if isinstance(v, dict) and "program" in v:
                for w, tpl in v["program"]["actions"]:
                    if tpl["a"] == "limit":
                        tpl["penny"] = True
    n_hft = hft if hft is not None else rng.choice([0, 1, 2, 3])
    if n_hft:
        cfg["H"] = {"class": "ScriptHFTAgent", "numAgents": n_hft, "markets": list(names), "cashAmount": 5000,
                    "assetVolume": 10, "program": prog()}
        cfg["simulation"]["agents"].append("H")
    if rng.random() < 0.4 and all(cfg[n]["marketPrice"] >= 200 * cfg[n]["tickSize"] for n in names):
        # built-in agents next to the scripted ones (their callbacks are observed at the Agent base class)
        cfg["FCN"] = {"class": "FCNAgent", "numAgents": rng.randint(3, 10), "markets": list(names), "assetVolume": 50,
                      "cashAmount": 10000, "fundamentalWeight": {"expon": [1.0]}, "chartWeight": {"expon": [0.3]},
                      "noiseWeight": {"expon": [1.0]}, "noiseScale": 0.01, "timeWindowSize": [3, 20],
                      "orderMargin": [0.0, 0.05]}
        cfg["simulation"]["agents"].append("FCN")
    flags = rng.choice([
        [(True, True)],
        [(True, False), (True, True)],
        [(True, True), (True, False), (True, True)],
        [(False, False), (True, True)],
        [(True, True), (True, True)],
    ])
    sessions = []
    for i, (pl, ex) in enumerate(flags):
        sessions.append({"sessionName": i, "iterationSteps": rng.choice([3, 6, 12, 25]), "withOrderPlacement": pl,
                         "withOrderExecution": ex, "withPrint": False,
                         "maxNormalOrders": rng.choice([1, 2, 3, 6]),
                         "maxHighFrequencyOrders": rng.choice([1, 2, 3]),
                         "highFrequencySubmitRate": rng.choice([0.5, 1.0])})
    if rng.random() < 0.15:
        si = rng.randrange(len(sessions))
        cfg["OMS"] = {"class": "OrderMistakeShock", "target": rng.choice(names),
                      "triggerTime": rng.randrange(sessions[si]["iterationSteps"]),
                      "priceChangeRate": rng.choice([-0.02, 0.0, 0.02]), "orderVolume": rng.choice([1, 8]),
                      "orderTimeLength": rng.choice([0, 0, 1, 3])}
        sessions[si]["events"] = ["OMS"]
    if rng.random() < 0.3:
        # market rules beside the accounting: halts that trip in the middle of a multi-fill round, price limits
        si = rng.randrange(len(sessions))
        if rng.random() < 0.7:
            cfg["HALT"] = {"class": "TradingHaltRule", "targetMarkets": rng.sample(names, rng.randint(1, len(names))),
                           "triggerChangeRate": rng.choice([0.0, 0.0, 0.005, 0.02]),
                           "haltingTimeLength": rng.choice([1, 2, 5])}
            sessions[si].setdefault("events", []).append("HALT")
        else:
            cfg["LIMIT"] = {"class": "PriceLimitRule", "targetMarkets": rng.sample(names, rng.randint(1, len(names))),
                            "triggerChangeRate": rng.choice([0.01, 0.05])}
            sessions[si].setdefault("events", []).append("LIMIT")
    if rng.random() < 0.08:
        # a long session: the run crosses the 100-step storage and generation chunks
        sessions[-1]["iterationSteps"] = rng.choice([101, 130, 205])
        sessions[-1]["maxNormalOrders"] = 1
    if auction:
        # a long pre-opening session collects well over a hundred crossing pairs (agents quoting both sides through
        # each other); the first order of the next session clears them in ONE round
        sessions[:] = [
            {"sessionName": 0, "iterationSteps": rng.choice([45, 70, 110]), "withOrderPlacement": True,
             "withOrderExecution": False, "withPrint": False, "maxNormalOrders": 6, "maxHighFrequencyOrders": 1,
             "highFrequencySubmitRate": 0.5},
            {"sessionName": 1, "iterationSteps": rng.choice([3, 8]), "withOrderPlacement": True,
             "withOrderExecution": True, "withPrint": False, "maxNormalOrders": 3, "maxHighFrequencyOrders": 2,
             "highFrequencySubmitRate": 1.0}]
        for k, v in cfg.items():
            if isinstance(v, dict) and "program" in v and v["class"] != "ScriptHFTAgent":
                v["numAgents"] = max(v.get("numAgents", 1), 4)
                v["program"] = {"p_act": 1.0, "max_batch": 2, "actions": [
                    [6, {"a": "both", "off": [1, 3], "vol": [1, 3], "ttl": [None]}],
                    [2, {"a": "limit", "side": "any", "off": [-3, 3], "vol": [1, 4], "ttl": [None, 200]}],
                    [1, {"a": "cancel", "which": "any"}]]}
        for k in ("OMS", "HALT", "LIMIT"):
            if k in cfg:
                del cfg[k]
    cfg["simulation"]["sessions"] = sessions
    sprinkle_empty_event_lists(rng, cfg, 0.2)
    case = {"drive": "runner", "seed": rng.randrange(1 << 31), "config": cfg, "profile": "accounting"}
    if rng.random() < 0.12:
        case["permute_agent_ids"] = True
    if rng.random() < 0.15:
        case["logger_kind"] = "falsy"
    elif rng.random() < 0.15:
        case["logger_kind"] = "batch"
    if hostile:
        # one agent group carries the hostile action; it fires rarely so that the run first builds state
        cand = [n for n in cfg["simulation"]["agents"] if "program" in cfg[n]]
        if hostile_hft and "H" in cfg:
            cand = ["H"]
            case["hostile_by"] = "hft"
        g = cfg[rng.choice(cand)]
        g["program"]["actions"].append([1, {"a": hostile}])
        case["hostile"] = hostile
    return case


# ---------------------------------------------------------------------------
# built-in and probe events
# ---------------------------------------------------------------------------
def spot_names(cfg):
    return [n for n in cfg["simulation"]["markets"] if cfg[n]["class"] in ("Market", "DepthMarket")]


def add_builtin_events(rng, cfg, which=None, sessions=None, p_each=0.5):
    """attach built-in events (valid settings) to randomly chosen sessions; returns the names added."""
    spots = spot_names(cfg)
    allm = list(cfg["simulation"]["markets"])
    sess = cfg["simulation"]["sessions"]
    which = which or ["FundamentalPriceShock", "OrderMistakeShock", "PriceLimitRule", "TradingHaltRule"]
    added = []
    for cls in which:
        if rng.random() >= p_each:
            continue
        si = rng.randrange(len(sess)) if sessions is None else rng.choice(sessions)
        steps = sess[si]["iterationSteps"]
        name = "EV_%s_%d" % (cls, len(added))
        if cls == "FundamentalPriceShock":
            e = {"class": cls, "target": rng.choice(spots), "triggerTime": rng.randrange(max(1, steps)),
                 "priceChangeRate": rng.choice([-0.3, -0.05, 0.0, 0.05, 0.2]), "shockTimeLength": rng.choice([0, 1, 1, 2, 4])}
        elif cls == "OrderMistakeShock":
            e = {"class": cls, "target": rng.choice(allm), "triggerTime": rng.randrange(max(1, steps)),
                 "priceChangeRate": rng.choice([-0.1, -0.02, 0.0, 0.02, 0.1]), "orderVolume": rng.choice([1, 10, 100]),
                 "orderTimeLength": rng.choice([0, 1, 5, 50])}
        elif cls == "PriceLimitRule":
            e = {"class": cls, "targetMarkets": rng.sample(allm, rng.randint(1, len(allm))),
                 "triggerChangeRate": rng.choice([0.0, 0.01, 0.05, 0.2])}
        elif cls == "TradingHaltRule":
            e = {"class": cls, "targetMarkets": rng.sample(allm, rng.randint(1, len(allm))),
                 "triggerChangeRate": rng.choice([0.0, 0.002, 0.01, 0.05]), "haltingTimeLength": rng.choice([1, 2, 3, 8])}
        else:
            raise ValueError(cls)
        if rng.random() < 0.1:
            e["enabled"] = False
        if rng.random() < 0.15:
            e["firstAttempt"] = flawed_settings(rng, e)
        cfg[name] = e
        sess[si].setdefault("events", []).append(name)
        added.append(name)
    sprinkle_empty_event_lists(rng, cfg)
    return added


def flawed_settings(rng, e):
    """settings of a built-in event with one flaw that its setup refuses by design; everything the flawed call may
    already have taken over is also in the corrected settings."""
    bad = {k: copy.deepcopy(v) for k, v in e.items() if k != "firstAttempt"}
    cls = e["class"]
    if cls in ("PriceLimitRule", "TradingHaltRule"):
        flaws = ["rate_int", "rate_missing", "unknown_market_last"]
        if cls == "TradingHaltRule":
            flaws += ["length_missing", "length_float"]
    elif cls == "FundamentalPriceShock":
        flaws = ["rate_missing", "window_float"]
    else:
        flaws = ["ttl_missing", "volume_float", "rate_int"]
    f = rng.choice(flaws)
    if f == "rate_int":
        bad["triggerChangeRate" if "Rule" in cls else "priceChangeRate"] = 1
    elif f == "rate_missing":
        bad.pop("triggerChangeRate" if "Rule" in cls else "priceChangeRate", None)
    elif f == "unknown_market_last":
        bad["targetMarkets"] = list(bad["targetMarkets"]) + ["no-such-market"]
    elif f == "length_missing":
        bad.pop("haltingTimeLength", None)
    elif f == "length_float":
        bad["haltingTimeLength"] = float(bad["haltingTimeLength"]) + 0.5
    elif f == "window_float":
        bad["shockTimeLength"] = 1.5
    elif f == "ttl_missing":
        bad.pop("orderTimeLength", None)
    elif f == "volume_float":
        bad["orderVolume"] = float(bad["orderVolume"]) + 0.5
    return bad


def sprinkle_empty_event_lists(rng, cfg, p=0.3):
    """sessions that list no event get an explicit empty list now and then (a configuration generator that always
    writes the key)."""
    n = 0
    for s_ in cfg["simulation"]["sessions"]:
        if "events" not in s_ and rng.random() < p:
            s_["events"] = []
            n += 1
    return n


def split_extra_targets(rng, cfg, p=0.15):
    """some rules get part of their targets through a user subclass that adds them after the bundled setup."""
    for name, v in cfg.items():
        if isinstance(v, dict) and v.get("class") in ("PriceLimitRule", "TradingHaltRule") and "firstAttempt" not in v \
                and len(v.get("targetMarkets", [])) >= 1 and rng.random() < p:
            t = list(v["targetMarkets"])
            k = rng.randint(1, len(t))
            v["targetMarkets"], v["extraTargets"] = t[:len(t) - k], t[len(t) - k:]


def add_first_attempts(rng, cfg, p=0.15):
    """mark some built-in events of the configuration as 'set up twice: refused first attempt, then corrected'."""
    n = 0
    for name, v in cfg.items():
        if isinstance(v, dict) and v.get("class") in ("PriceLimitRule", "TradingHaltRule", "FundamentalPriceShock",
                                                      "OrderMistakeShock") and "extraTargets" not in v and rng.random() < p:
            v["firstAttempt"] = flawed_settings(rng, v)
            n += 1
    sprinkle_empty_event_lists(rng, cfg)
    sprinkle_obsolete_keys(cfg)
    mark_via_extends(cfg)
    return n


def _wrong(v, markets):
    """another value of the same type (what a template holds before a derived block overrides it)."""
    if isinstance(v, bool):
        return not v
    if isinstance(v, int):
        return v * 3 + 1
    if isinstance(v, float):
        return v * 3.0 + 0.125
    if isinstance(v, str):
        others = [m for m in markets if m != v]
        return others[0] if (v in markets and others) else v
    if isinstance(v, list) and v and all(isinstance(x, str) for x in v):
        others = [m for m in markets if m not in v]
        return (others[:1] or v[:1])
    return v


def mark_via_extends(cfg, p=0.3):
    """mark some bundled events as 'written as the last block of an extends chain' (see expand_via_extends); drawn from a
    side generator seeded by the configuration."""
    import json
    import zlib

    side = random.Random(zlib.crc32(json.dumps(cfg, sort_keys=True, default=str).encode()) ^ 0x5EED)
    for name, v in cfg.items():
        if isinstance(v, dict) and v.get("class") in ("PriceLimitRule", "TradingHaltRule", "FundamentalPriceShock",
                                                      "OrderMistakeShock") and "extends" not in v and side.random() < p:
            v["viaExtends"] = True


def expand_via_extends(settings):
    """in the settings handed to the runner (not in the case, which keeps the flat, intended values the monitors read):
    every marked event block E becomes  E = {extends: E__mid, <harness keys>},  E__mid = {extends: <template>, every key
    of E with its intended value},  <template> = {class, every key with ANOTHER value of the same type}. Marked events of
    one class share ONE template block (siblings deriving from a common parent). Inheritance must give every event
    exactly its own intended values: the nearest block that defines a key wins, and resolving one event leaves the
    blocks of the others alone."""
    markets = list(settings["simulation"]["markets"])
    templates = {}
    for name, v in list(settings.items()):
        if not (isinstance(v, dict) and v.pop("viaExtends", None)):
            continue
        # (count / range / prefix keys are not inherited by the runner: they stay on the block itself)
        leaf_keys = ("firstAttempt", "extraTargets", "numMarkets", "from", "to", "prefix", "userSubclass")
        own = {k: x for k, x in v.items() if k not in leaf_keys and k != "class"}
        cls_name = v["class"]
        tname = templates.get(cls_name)
        if tname is None:
            tname = templates[cls_name] = "%s__template" % name
            t = {"class": cls_name}
            t.update({k: _wrong(x, markets) for k, x in own.items()})
            if "Market" not in cls_name:
                t.setdefault("enabled", False)
            settings[tname] = t
            taps.hits["event_template_block_with_other_values"] += 1
        else:
            taps.hits["second_event_deriving_from_the_same_template_block"] += 1
        mid = {"extends": tname}
        mid.update(own)
        if "Market" not in cls_name:
            mid.setdefault("enabled", True)
        settings[name + "__mid"] = mid
        leaf = {"extends": name + "__mid"}
        leaf.update({k: v[k] for k in leaf_keys if k in v})
        settings[name] = leaf
        taps.hits["event_written_as_last_block_of_a_two_level_extends_chain"] += 1


def sprinkle_obsolete_keys(cfg, p=0.3):
    """obsolete keys that pams tolerates with a warning ("agent" of an order mistake shock, "referenceMarket" of the two
    rules) beside the current ones - also on disabled events. Drawn from a generator of its own (seeded by the
    configuration), so that the cases generated after this one stay what they were."""
    import json
    import zlib

    side = random.Random(zlib.crc32(json.dumps(cfg, sort_keys=True, default=str).encode()))
    markets = list(cfg["simulation"]["markets"])
    for name, v in cfg.items():
        if not isinstance(v, dict) or side.random() >= p:
            continue
        if v.get("class") == "OrderMistakeShock" and "agent" not in v:
            v["agent"] = side.choice(list(cfg["simulation"]["agents"]) or ["nobody"])
        elif v.get("class") in ("PriceLimitRule", "TradingHaltRule") and "referenceMarket" not in v:
            v["referenceMarket"] = side.choice(markets)


HOOK_TYPES = [("order", True), ("order", False), ("cancel", True), ("cancel", False), ("execution", False),
              ("session", True), ("session", False), ("market", True), ("market", False)]


def gen_probe(rng, cfg, session_index, total_steps, n_hooks=None, with_filters=True):
    """settings of one ProbeEvent with a generated hook table."""
    hooks = []
    allm = list(cfg["simulation"]["markets"])
    for _ in range(n_hooks or rng.randint(1, 5)):
        typ, before = rng.choice(HOOK_TYPES)
        r = rng.random()
        if r < 0.3:
            t = None
        elif r < 0.4:
            t = []
        elif r < 0.47:
            t = [0]
        elif r < 0.6:
            t = [rng.randrange(total_steps)]
        elif r < 0.8:
            a = rng.randrange(total_steps)
            t = list(range(a, min(total_steps, a + rng.randint(1, 6))))
        else:
            t = [rng.randrange(total_steps) for _ in range(rng.randint(2, 5))]
            if rng.random() < 0.5:
                t.append(t[0])  # repeated entry
        h = {"type": typ, "before": before, "time": t}
        if typ == "market" and with_filters:
            r = rng.random()
            if r < 0.25:
                h["cls"] = rng.choice(["Market", "IndexMarket"])
            elif r < 0.5:
                h["instance"] = rng.choice(allm)
            elif r < 0.6:
                h["cls"] = rng.choice(["Market", "IndexMarket"])
                h["instance"] = rng.choice(allm)
        hooks.append(h)
    out = {"class": "ProbeEvent", "hooks": hooks}
    if rng.random() < 0.25:
        out["derived"] = True   # run as a subclass that inherits every handler
    return out
