"""pamsmon: runtime monitors for the PAMS properties C01-C20 (see DESIGN.md)."""
