"""Shared infrastructure: results, sharding, evidence, known findings, verdicts.

Verdicts are three-valued (DESIGN.md 2.4): exit 0 = held on what was observed,
exit 1 + `VIOLATION property=<id> replay=<path>` = violated, exit 2 +
`INCONCLUSIVE property=<id> reason=...` = the monitors did not see enough.
"""
import collections
import hashlib
import importlib
import json
import os
import random
import shutil
import signal
import subprocess
import sys
import tempfile
import time
import traceback

VERIF = os.path.dirname(os.path.dirname(os.path.abspath(__file__)))
REPO = os.environ.get("PAMS_REPO", "/repo")
PY = os.environ.get("PAMS_PYTHON", "/venv/bin/python")
GUARD = "PAMS_VERIF"

MAX_VIOLATIONS_PER_SHARD = 12
MAX_SAMPLES = 4


def case_rng(seed, prop, idx):
    h = hashlib.sha256(("%s:%s:%s" % (seed, prop, idx)).encode()).digest()
    return random.Random(int.from_bytes(h[:8], "big"))


def canon_hash(obj):
    s = json.dumps(obj, sort_keys=True, default=repr, separators=(",", ":"))
    return hashlib.blake2b(s.encode(), digest_size=8).hexdigest()


def jsonable(o, depth=0):
    """best-effort conversion of witnesses to JSON."""
    if depth > 12:
        return repr(o)
    if o is None or isinstance(o, (bool, int, str)):
        return o
    if isinstance(o, float):
        if o != o:
            return "NaN"
        if o in (float("inf"), float("-inf")):
            return repr(o)
        return o
    if isinstance(o, dict):
        return {str(k): jsonable(v, depth + 1) for k, v in o.items()}
    if isinstance(o, (list, tuple, set, frozenset)):
        return [jsonable(v, depth + 1) for v in o]
    return repr(o)


class CaseTimeout(Exception):
    pass


class Inconclusive(Exception):
    pass


class Result:
    """what one shard (or, merged, one check run) observed."""

    def __init__(self, prop):
        self.prop = prop
        self.evaluations = 0
        self.counters = collections.Counter()
        self.distinct = set()
        self.violations = []
        self.n_violations = 0
        self.samples = []
        self.inconclusive = []
        self.maxima = {}
        self._case = None

    # -- recording -------------------------------------------------------
    def count(self, name, n=1):
        self.counters[name] += n

    def maximum(self, name, value):
        if value is None:
            return
        if name not in self.maxima or value > self.maxima[name]:
            self.maxima[name] = value

    def seen(self, canon, nontrivial=True):
        """register a case by canonical form; only non-trivial ones are kept."""
        if nontrivial:
            self.distinct.add(canon if isinstance(canon, str) and len(canon) == 16 else canon_hash(canon))

    def sample(self, obj):
        if len(self.samples) < MAX_SAMPLES:
            self.samples.append(jsonable(obj))

    def set_case(self, case):
        self._case = case

    def violation(self, clause, mechanism, detail, case=None):
        self.n_violations += 1
        self.counters["violations/" + mechanism] += 1
        if len(self.violations) < MAX_VIOLATIONS_PER_SHARD or not any(
            v["mechanism"] == mechanism for v in self.violations
        ):
            self.violations.append(
                {
                    "clause": clause,
                    "mechanism": mechanism,
                    "detail": jsonable(detail),
                    "case": jsonable(case if case is not None else self._case),
                }
            )

    def inconc(self, reason):
        if len(self.inconclusive) < 20:
            self.inconclusive.append(reason)
        self.counters["inconclusive"] += 1

    # -- (de)serialisation -------------------------------------------------
    def to_json(self):
        return {
            "prop": self.prop,
            "evaluations": self.evaluations,
            "counters": dict(self.counters),
            "distinct": sorted(self.distinct),
            "violations": self.violations,
            "n_violations": self.n_violations,
            "samples": self.samples,
            "inconclusive": self.inconclusive,
            "maxima": self.maxima,
        }

    def merge_json(self, d):
        self.evaluations += d["evaluations"]
        self.counters.update(d["counters"])
        self.distinct.update(d["distinct"])
        self.violations.extend(d["violations"])
        self.n_violations += d["n_violations"]
        for s in d["samples"]:
            if len(self.samples) < MAX_SAMPLES:
                self.samples.append(s)
        self.inconclusive.extend(d["inconclusive"])
        for k, v in d["maxima"].items():
            self.maximum(k, v)


# ---------------------------------------------------------------------------
# per-case watchdog (wall clock => inconclusive, never a verdict)
# ---------------------------------------------------------------------------
def _alarm(signum, frame):
    raise CaseTimeout()


def run_with_watchdog(fn, seconds):
    old = signal.signal(signal.SIGALRM, _alarm)
    signal.alarm(int(seconds))
    try:
        return fn()
    finally:
        signal.alarm(0)
        signal.signal(signal.SIGALRM, old)


# ---------------------------------------------------------------------------
# shard entry point (child process)
# ---------------------------------------------------------------------------
def load_prop(prop):
    return importlib.import_module("pamsmon.props." + prop.lower())


def shard_main(argv):
    prop, tier, seed, shard, nshards, out = argv
    seed, shard, nshards = int(seed), int(shard), int(nshards)
    from . import bootstrap

    bootstrap.init()
    mod = load_prop(prop)
    res = Result(prop)
    n = mod.budget(tier)
    t0 = time.time()
    per_case = getattr(mod, "CASE_TIMEOUT_S", 120)
    for i in range(shard, n, nshards):
        rng = case_rng(seed, prop, i)
        case = mod.gen_case(rng, tier, i)
        case["_idx"] = i
        res.set_case(case)
        res.evaluations += 1
        try:
            run_with_watchdog(lambda: mod.run_case(case, res), per_case)
        except CaseTimeout:
            res.inconc("case %d hit the %ds wall-clock watchdog" % (i, per_case))
        except Inconclusive as e:
            res.inconc("case %d: %s" % (i, e))
        except Exception:
            res.inconc("case %d: harness/unexpected exception: %s" % (i, traceback.format_exc()[-1500:]))
        if len(res.samples) < 2 and hasattr(mod, "sample_of"):
            try:
                res.sample(mod.sample_of(case))
            except Exception:
                pass
    res.counters["shard_wall_ms"] += int((time.time() - t0) * 1000)
    try:
        from . import taps

        for k, v in taps.hits.items():
            res.counters["tap_hits/" + k] += v
    except Exception:
        pass
    with open(out, "w") as f:
        json.dump(res.to_json(), f)
    return 0


# ---------------------------------------------------------------------------
# known findings
# ---------------------------------------------------------------------------
def load_known():
    p = os.path.join(VERIF, "known_findings.json")
    if not os.path.exists(p):
        return []
    with open(p) as f:
        return json.load(f).get("entries", [])


# ---------------------------------------------------------------------------
# parent: fan out, merge, decide, write evidence
# ---------------------------------------------------------------------------
def _child_env(pyc):
    env = dict(os.environ)
    env["PYTHONPATH"] = VERIF + os.pathsep + env.get("PYTHONPATH", "")
    env["PYTHONPYCACHEPREFIX"] = pyc
    env[GUARD] = "1"
    env.setdefault("PYTHONHASHSEED", "random")
    env["OPENBLAS_NUM_THREADS"] = "1"
    env["OMP_NUM_THREADS"] = "1"
    env["MKL_NUM_THREADS"] = "1"
    return env


def write_evidence(prop, tier, seed, mod, res, wall, verdict, extra=None):
    cov = {
        "evaluations": int(res.evaluations),
        "distinct_nontrivial": int(len(res.distinct)),
        "rule": getattr(mod, "RULE", ""),
        "samples": res.samples if res.samples else [],
        "verdict": verdict,
        "situation_classes": {k: v for k, v in sorted(res.counters.items())
                              if not k.startswith(("violations/", "tap_hits/"))},
        "observation_point_hits": {k.split("/", 1)[1]: v for k, v in sorted(res.counters.items()) if k.startswith("tap_hits/")},
        "required_classes": getattr(mod, "REQUIRED", {}).get(tier, {}),
        "maxima": res.maxima,
        "inconclusive_reasons": res.inconclusive[:5],
        "violations_by_mechanism": {
            k.split("/", 1)[1]: v for k, v in res.counters.items() if k.startswith("violations/")
        },
    }
    if extra:
        cov.update(extra)
    ev = {
        "property_id": prop,
        "tier": tier,
        "seed": int(seed),
        "level": "exploration",
        "coverage": cov,
        "assumptions": getattr(mod, "ASSUMPTIONS", []),
        "wall_s": round(wall, 3),
        "violations": int(res.n_violations),
    }
    evdir = os.environ.get("PAMS_EVIDENCE_DIR") or os.path.join(VERIF, "evidence")
    os.makedirs(evdir, exist_ok=True)
    path = os.path.join(evdir, prop + ".json")
    tmp = path + ".tmp"
    with open(tmp, "w") as f:
        json.dump(ev, f, indent=1, sort_keys=True)
        f.write("\n")
    os.replace(tmp, path)
    try:
        import jsonschema

        schema_path = "/root/.vp/EVIDENCE.schema.json"
        if os.path.exists(schema_path):
            with open(schema_path) as f:
                try:
                    jsonschema.validate(ev, json.load(f))
                except jsonschema.ValidationError as e:
                    # happens when a run observed (almost) nothing; the verdict below will be inconclusive
                    print("EVIDENCE-NOT-VALID: %s" % str(e).splitlines()[0])
    except ImportError:
        pass
    return path


def check_main(prop, tier, seed, replay=None, workers=None):
    t0 = time.time()
    pyc = tempfile.mkdtemp(prefix="pamsmon-pyc-")
    scratch = tempfile.mkdtemp(prefix="pamsmon-out-")
    try:
        return _check_main(prop, tier, seed, replay, workers, pyc, scratch, t0)
    finally:
        shutil.rmtree(pyc, ignore_errors=True)
        shutil.rmtree(scratch, ignore_errors=True)


def _check_main(prop, tier, seed, replay, workers, pyc, scratch, t0):
    sys.path.insert(0, VERIF)
    os.environ["PYTHONPYCACHEPREFIX"] = pyc
    sys.pycache_prefix = pyc
    from . import bootstrap

    bootstrap.init()
    mod = load_prop(prop)
    env = _child_env(pyc)

    if replay is not None:
        with open(replay) as f:
            w = json.load(f)
        res = Result(prop)
        res.evaluations = 1
        res.set_case(w["case"])
        mod.run_case(w["case"], res)
        if res.n_violations:
            for v in res.violations:
                print("replayed violation clause=%s mechanism=%s" % (v["clause"], v["mechanism"]))
                print(json.dumps(v["detail"], indent=1)[:4000])
            print("VIOLATION property=%s replay=%s" % (prop, replay))
            return 1
        print("replay: no violation reproduced")
        return 0

    nshards = workers or getattr(mod, "SHARDS", {}).get(tier, 8 if tier == "quick" else 16)
    nshards = max(1, min(nshards, mod.budget(tier)))
    timeout = getattr(mod, "SHARD_TIMEOUT_S", {}).get(tier, 600 if tier == "quick" else 3000)
    procs = []
    for s in range(nshards):
        out = os.path.join(scratch, "shard-%d.json" % s)
        cmd = [PY, "-m", "pamsmon.shard", prop, tier, str(seed), str(s), str(nshards), out]
        p = subprocess.Popen(cmd, env=env, cwd=VERIF, stdout=subprocess.PIPE, stderr=subprocess.STDOUT)
        procs.append((s, p, out))
    res = Result(prop)
    deadline = time.time() + timeout
    for s, p, out in procs:
        try:
            o, _ = p.communicate(timeout=max(1, deadline - time.time()))
        except subprocess.TimeoutExpired:
            p.kill()
            o, _ = p.communicate()
            res.inconc("shard %d hit the %ds wall-clock watchdog" % (s, timeout))
            continue
        if p.returncode != 0 or not os.path.exists(out):
            res.inconc(
                "shard %d died rc=%s: %s" % (s, p.returncode, (o or b"").decode(errors="replace")[-1500:])
            )
            continue
        with open(out) as f:
            res.merge_json(json.load(f))

    extra = {}
    if hasattr(mod, "finalize"):
        try:
            extra = mod.finalize(res, tier, seed, env) or {}
        except Inconclusive as e:
            res.inconc("finalize: %s" % e)
        except Exception:
            res.inconc("finalize raised: " + traceback.format_exc()[-1500:])

    # required situation classes
    for name, need in getattr(mod, "REQUIRED", {}).get(tier, {}).items():
        if res.counters.get(name, 0) < need:
            res.inconc("required situation class %r seen %d < %d times" % (name, res.counters.get(name, 0), need))

    # classify violations against the committed known-findings file
    known = {(e["property"], e["mechanism"]): e for e in load_known() if e.get("status") == "known"}
    new, old = [], {}
    for v in res.violations:
        key = (prop, v["mechanism"])
        if key in known:
            old.setdefault(v["mechanism"], v)
        else:
            new.append(v)
    n_new = sum(
        c for k, c in res.counters.items() if k.startswith("violations/") and (prop, k.split("/", 1)[1]) not in known
    )

    if n_new:
        verdict = "violated"
    elif res.inconclusive:
        verdict = "inconclusive"
    else:
        verdict = "held-on-observed"
    wall = time.time() - t0
    write_evidence(prop, tier, seed, mod, res, wall, verdict, extra)

    for mech, v in old.items():
        print("KNOWN-FINDING: property=%s %s" % (prop, known[(prop, mech)].get("what", mech)))
    print(
        "%s tier=%s seed=%s evaluations=%d distinct_nontrivial=%d violations=%d wall=%.1fs"
        % (prop, tier, seed, res.evaluations, len(res.distinct), res.n_violations, wall)
    )
    if n_new:
        rdir = os.environ.get("PAMS_REPLAY_DIR") or os.path.join(VERIF, "replays")
        os.makedirs(rdir, exist_ok=True)
        shown = set()
        first = None
        for v in new:
            if v["mechanism"] in shown:
                continue
            shown.add(v["mechanism"])
            idx = (v.get("case") or {}).get("_idx", "x") if isinstance(v.get("case"), dict) else "x"
            path = os.path.join(rdir, "%s-%s-%s-%s.json" % (prop, seed, idx, v["mechanism"][:40].replace("/", "_")))
            with open(path, "w") as f:
                json.dump({"property": prop, "tier": tier, "seed": seed, **v}, f, indent=1)
            print("violated clause=%s mechanism=%s" % (v["clause"], v["mechanism"]))
            print("  detail: " + json.dumps(v["detail"])[:1200])
            print("VIOLATION property=%s replay=%s" % (prop, path))
            first = first or path
        return 1
    if res.inconclusive:
        for r in res.inconclusive[:5]:
            print("INCONCLUSIVE property=%s reason=%s" % (prop, r.replace("\n", " | ")[:1500]))
        return 2
    return 0
