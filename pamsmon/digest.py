"""Digest of everything observable about one simulation run (C07)."""
import hashlib
import json

from . import taps
from .runnerdrive import run_runner_case


def fmt(v):
    if hasattr(v, "item") and not isinstance(v, (list, tuple, dict, str)):
        try:
            v = v.item()   # numpy scalar
        except Exception:
            pass
    if isinstance(v, float):
        return v.hex() if v == v and v not in (float("inf"), float("-inf")) else repr(v)
    if isinstance(v, (list, tuple)):
        return [fmt(x) for x in v]
    if isinstance(v, dict):
        return {str(k): fmt(x) for k, x in sorted(v.items(), key=lambda kv: str(kv[0]))}
    if v is None or isinstance(v, (int, str, bool)):
        return v
    return getattr(v, "name", None) or type(v).__name__


def run_digest(case, settings_obj=None, parts=False, with_logger=True):
    """-> (hex digest, stats, error) of a run of case['config'] with runner seed case['seed']."""
    h = hashlib.sha256()
    stats = {"records": 0, "callbacks": 0, "fills": 0, "agent_classes": set()}
    sections = {}

    def feed(tag, obj):
        s = json.dumps([tag, fmt(obj)], sort_keys=True, separators=(",", ":"))
        h.update(s.encode())
        h.update(b"\n")
        if parts:
            sections.setdefault(tag, hashlib.sha256()).update(s.encode())

    def sink(ev):
        k = ev["k"]
        if k == "log_write":
            stats["records"] += 1
            feed("log", taps.snap_log(ev["log"]))
        elif k == "cb":
            stats["callbacks"] += 1
            feed("cb", [ev["agent"].agent_id, ev["what"], taps.snap_log(ev["log"]), ev["hold"][0], ev["hold"][1]])
        elif k == "consult_ret":
            feed("consult", [ev["agent"].agent_id, ev["time"], ev["snaps"]])

    out = run_runner_case(case, [sink], settings_obj=settings_obj, with_logger=with_logger)
    sim = out.simulator
    if out.error is None and sim is not None:
        stats["fills"] = len(out.fills)
        for m in sim.markets:
            ser = {}
            for name in ("get_market_prices", "get_mid_prices", "get_last_executed_prices", "get_fundamental_prices",
                         "get_executed_volumes", "get_executed_total_prices", "get_n_buy_orders", "get_n_sell_orders"):
                ser[name] = getattr(m, name)()
            ser["book"] = [list(m.get_buy_order_book().items()), list(m.get_sell_order_book().items())]
            ser["name"] = m.name
            # attributes a user market class drew from its own (seeded) generator
            ser["user_attrs"] = {k: getattr(m, k) for k in ("lot_size", "opening_noise") if hasattr(m, k)}
            feed("series", ser)
        for a in sim.agents:
            stats["agent_classes"].add(type(a).__name__)
            feed("agent", [a.agent_id, a.name, type(a).__name__, a.get_cash_amount(), dict(a.asset_volumes)])
        for s in sim.sessions:
            feed("session", {k: v for k, v in vars(s).items() if k not in ("prng", "simulator", "logger")})
        for e in sim.events:
            feed("event", [e.event_id, e.name, type(e).__name__])
    stats["agent_classes"] = sorted(stats["agent_classes"])
    if parts:
        stats["sections"] = {k: v.hexdigest()[:16] for k, v in sections.items()}
    return h.hexdigest(), stats, out


if __name__ == "__main__":
    import sys

    from . import bootstrap

    bootstrap.init()
    with open(sys.argv[1]) as f:
        case = json.load(f)
    d, stats, out = run_digest(case, parts=True)
    print(json.dumps({"digest": d, "stats": stats, "error": repr(out.error) if out.error else None}))
