"""Reference (shadow) order book kept from observed boundary events only.

It is written from the property statements: an accepted order rests with its accepted
volume; fills decrement both sides; a cancel removes the order if it still rests; at a
clock update every order with placed_at + ttl < now leaves.  Priority is decided by the
monitor's own key (never by Order.__lt__): market orders first, better price, earlier
acceptance time, lower id.
"""


class SOrder:
    __slots__ = (
        "oid", "is_buy", "is_market", "price", "vol0", "rem", "placed_at", "ttl", "agent_id",
        "obj", "state", "fills", "end_time", "requested",
    )

    def __init__(self, oid, is_buy, is_market, price, vol, placed_at, ttl, agent_id, obj=None):
        self.oid = oid
        self.is_buy = is_buy
        self.is_market = is_market
        self.price = price
        self.vol0 = vol
        self.rem = vol
        self.placed_at = placed_at
        self.ttl = ttl
        self.agent_id = agent_id
        self.obj = obj
        self.state = "resting"
        self.fills = 0
        self.end_time = None
        self.requested = None

    def key(self):
        if self.is_market:
            return (0, 0.0, self.placed_at, self.oid)
        return (1, -self.price if self.is_buy else self.price, self.placed_at, self.oid)

    def stamp(self):
        return (self.placed_at, self.oid)

    def brief(self):
        return {
            "oid": self.oid, "side": "B" if self.is_buy else "S", "mkt": self.is_market, "price": self.price,
            "rem": self.rem, "vol0": self.vol0, "t": self.placed_at, "ttl": self.ttl, "agent": self.agent_id,
            "state": self.state,
        }


class ShadowBook:
    def __init__(self, market_id):
        self.market_id = market_id
        self.all = {}      # oid -> SOrder (every accepted order)
        self.live = {}     # oid -> SOrder resting
        self.anomalies = []
        self.now = None

    # -- event feeding ----------------------------------------------------
    def on_accept(self, log, obj=None):
        oid = log.order_id
        if oid in self.all:
            self.anomalies.append(("duplicate-order-id", oid))
        so = SOrder(
            oid, bool(log.is_buy), log.price is None, log.price, log.volume, log.time, log.ttl, log.agent_id, obj
        )
        self.all[oid] = so
        self.live[oid] = so
        return so

    def on_fill(self, log):
        """apply one fill; returns (buy SOrder|None, sell SOrder|None)."""
        b = self.live.get(log.buy_order_id)
        s = self.live.get(log.sell_order_id)
        for so in (b, s):
            if so is not None:
                so.rem -= log.volume
                so.fills += 1
                if so.rem <= 0:
                    so.state = "filled"
                    so.end_time = log.time
                    self.live.pop(so.oid, None)
        return b, s

    def on_cancel(self, log):
        so = self.live.pop(log.order_id, None)
        if so is not None:
            so.state = "cancelled"
            so.end_time = log.cancel_time
        return so

    def on_clock(self, now):
        """orders whose lifetime has passed leave exactly when the clock passes placed_at+ttl."""
        self.now = now
        gone = [so for so in self.live.values() if so.ttl is not None and so.placed_at + so.ttl < now]
        for so in gone:
            so.state = "expired"
            so.end_time = now
            self.live.pop(so.oid, None)
        return gone

    # -- queries ----------------------------------------------------------
    def side(self, is_buy):
        return sorted((so for so in self.live.values() if so.is_buy == is_buy), key=SOrder.key)

    def best(self, is_buy):
        best = None
        bk = None
        for so in self.live.values():
            if so.is_buy == is_buy:
                k = so.key()
                if bk is None or k < bk:
                    best, bk = so, k
        return best

    def best_price(self, is_buy):
        b = self.best(is_buy)
        return None if b is None else b.price

    def depth(self, is_buy):
        """ordered list of (price|None, volume): market orders first, then price priority."""
        agg = {}
        for so in self.live.values():
            if so.is_buy == is_buy:
                agg[so.price] = agg.get(so.price, 0) + so.rem
        keys = [k for k in agg if k is not None]
        keys.sort(reverse=is_buy)
        if None in agg:
            keys.insert(0, None)
        return [(k, agg[k]) for k in keys]

    def canon(self):
        return [
            [(so.is_market, so.price, so.rem, so.placed_at) for so in self.side(True)],
            [(so.is_market, so.price, so.rem, so.placed_at) for so in self.side(False)],
        ]
