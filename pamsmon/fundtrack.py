"""FundTracker: keeps, from the taps on Fundamentals._generate_log_return, the log-return that the
generator produced for every (market, t -> t+1) in its most recent generation covering t."""
import math


class FundTracker:
    def __init__(self):
        self.gens = []          # list of dicts: start, length, ids, ret (list of lists), params snapshot
        self._call = None
        self.latest = {}        # (market_id, t) -> log return t -> t+1 of the latest generation covering it
        self.latest_gen = {}    # (market_id, t) -> index of that generation

    def on_event(self, ev):
        k = ev["k"]
        if k == "genlr_call":
            f = ev["fund"]
            self._call = {
                "start": ev["generated_until"], "length": ev["length"], "ids": list(ev["ids"]),
                "drifts": dict(f.drifts), "vols": dict(f.volatilities), "corr": dict(f.correlation),
            }
        elif k == "genlr_ret" and self._call is not None:
            g = self._call
            self._call = None
            ret = ev["ret"]
            g["ret"] = [[float(x) for x in row] for row in ret]
            g["shape"] = tuple(getattr(ret, "shape", ()))
            self.gens.append(g)
            for row, mid in zip(g["ret"], g["ids"]):
                for j, r in enumerate(row):
                    self.latest[(mid, g["start"] + j)] = r
                    self.latest_gen[(mid, g["start"] + j)] = len(self.gens) - 1
            return g
        return None

    def log_return(self, market_id, t):
        return self.latest.get((market_id, t))

    def expected_next(self, market_id, t, value_at_t):
        r = self.log_return(market_id, t)
        if r is None:
            return None
        return value_at_t * math.exp(r)
