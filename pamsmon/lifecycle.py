"""Monitors over the order life cycle of runner-drive executions: C04 (accounting and
lifetime), C05 (conservation ledger), C10 (logger exactly-once), C11 (agent callbacks)."""
import collections

from . import taps
from .core import canon_hash
from .tracker import BookTracker


def log_fields(log):
    d = taps.snap_log(log)
    return tuple(sorted((k, repr(v)) for k, v in d.items()))


# ---------------------------------------------------------------------------
# ledger shared by C05 and C11
# ---------------------------------------------------------------------------
class Ledger:
    def __init__(self):
        self.cash = {}
        self.shares = {}
        self.flow = {}
        self.ready = False
        self.total_cash0 = 0.0
        self.total_shares0 = {}
        self.n_fills = 0

    def capture(self, simulator):
        for a in simulator.agents:
            self.cash[a.agent_id] = a.get_cash_amount()
            self.shares[a.agent_id] = dict(a.asset_volumes)
            self.flow[a.agent_id] = abs(a.get_cash_amount())
        self.total_cash0 = sum(self.cash.values())
        tot = collections.Counter()
        for sh in self.shares.values():
            for m, v in sh.items():
                tot[m] += v
        self.total_shares0 = dict(tot)
        self.ready = True

    def apply(self, log, parties=None):
        pv = log.price * log.volume
        b, s = parties if parties is not None else (log.buy_agent_id, log.sell_agent_id)
        m = log.market_id
        self.cash[b] -= pv
        self.cash[s] += pv
        self.flow[b] += abs(pv)
        self.flow[s] += abs(pv)
        self.shares[b][m] = self.shares[b].get(m, 0) + log.volume
        self.shares[s][m] = self.shares[s].get(m, 0) - log.volume
        self.n_fills += 1

    def agrees(self, agent_id, cash, shares):
        """-> None if equal, else description."""
        if agent_id not in self.cash:
            return None
        tol = 1e-11 * max(1.0, self.flow[agent_id])
        if abs(cash - self.cash[agent_id]) > tol:
            return {"agent": agent_id, "what": "cash", "observed": cash, "expected": self.cash[agent_id]}
        exp = self.shares[agent_id]
        for m in set(exp) | set(shares):
            if shares.get(m, 0) != exp.get(m, 0):
                return {"agent": agent_id, "what": "shares", "market": m, "observed": shares.get(m, 0),
                        "expected": exp.get(m, 0)}
        return None


# ---------------------------------------------------------------------------
# C05
# ---------------------------------------------------------------------------
class Owners:
    """who owns an order, established where the order enters the run - the agent that returned it from submit_orders -
    and never read from the records the code under test writes about it (a fill record naming the wrong agent is one
    of the things to be found)."""

    def __init__(self):
        self.by_obj = {}        # id(order object) -> (object, agent_id)
        self.by_id = {}         # (market_id, order_id) -> agent_id

    def on_event(self, ev):
        k = ev["k"]
        if k == "consult_ret":
            aid = ev["agent"].agent_id
            for o in ev["orders"]:
                self.by_obj[id(o)] = (o, aid)
        elif k == "add_ret":
            o = ev["order"]
            rec = self.by_obj.get(id(o))
            aid = rec[1] if rec is not None and rec[0] is o else ev.get("snap", {}).get("agent_id", o.agent_id)
            self.by_id[(ev["mkt"].market_id, ev["log"].order_id)] = aid

    def of_order(self, ev_or_obj, default):
        rec = self.by_obj.get(id(ev_or_obj))
        return rec[1] if rec is not None and rec[0] is ev_or_obj else default

    def parties(self, log):
        """(buyer, seller) of a fill: the owners of the two matched orders."""
        return (self.by_id.get((log.market_id, log.buy_order_id), log.buy_agent_id),
                self.by_id.get((log.market_id, log.sell_order_id), log.sell_agent_id))


class C05Monitor:
    def __init__(self, res):
        self.owners = Owners()
        self.res = res
        self.ledger = Ledger()
        self.sim = None
        self.round_sizes = []
        self.self_trades = 0
        self.max_fills_round = 0
        self.hft_fills = 0
        self.in_hft = False
        self.reported = False

    def _compare_agent(self, agent, cash, shares, where):
        res = self.res
        res.count("holdings_comparisons")
        d = self.ledger.agrees(agent.agent_id, cash, shares)
        if d is not None and not self.reported:
            self.reported = True
            res.violation("holdings", "holdings-differ-from-endowment-folded-with-fills:" + d["what"],
                          dict(d, where=where, fills_so_far=self.ledger.n_fills))

    def _compare_all(self, where):
        if not self.ledger.ready or self.sim is None:
            return
        res = self.res
        tot_cash = 0.0
        tot_sh = collections.Counter()
        flow = 0.0
        for a in self.sim.agents:
            cash = a.get_cash_amount()
            sh = {m: a.get_asset_volume(m) for m in a.asset_volumes}
            self._compare_agent(a, cash, sh, where)
            tot_cash += cash
            flow += self.ledger.flow[a.agent_id]
            for m, v in sh.items():
                tot_sh[m] += v
        res.count("total_checks")
        if dict(tot_sh) != {k: v for k, v in self.ledger.total_shares0.items()} and not self.reported:
            if {k: v for k, v in tot_sh.items() if v} != {k: v for k, v in self.ledger.total_shares0.items() if v}:
                self.reported = True
                res.violation("conservation", "total-shares-of-a-market-changed",
                              {"where": where, "observed": dict(tot_sh), "expected": self.ledger.total_shares0})
        if abs(tot_cash - self.ledger.total_cash0) > 1e-11 * max(1.0, flow) and not self.reported:
            self.reported = True
            res.violation("conservation", "total-cash-changed",
                          {"where": where, "observed": tot_cash, "expected": self.ledger.total_cash0})

    def on_event(self, ev):
        k = ev["k"]
        self.owners.on_event(ev)
        if k == "runner_setup_ret":
            self.sim = ev["runner"].simulator
            self.ledger.capture(self.sim)
        elif k == "exec_ret":
            logs = ev["logs"]
            for log in logs:
                # the fill is folded onto the OWNERS of the two matched orders, not onto the agent ids the record carries
                self.ledger.apply(log, self.owners.parties(log))
                self.__dict__.setdefault("returned_ids", set()).add(id(log))
                self.__dict__.setdefault("keep", []).append(log)
                if log.buy_agent_id == log.sell_agent_id:
                    self.self_trades += 1
                if self.in_hft:
                    self.hft_fills += 1
            if logs:
                self.max_fills_round = max(self.max_fills_round, len(logs))
        elif k == "cb":
            cash, sh = ev["hold"]
            self._compare_agent(ev["agent"], cash, sh, "callback:" + ev["what"])
        elif k == "consult_call":
            self.in_hft = ev["hft"]
            if self.ledger.ready:
                a = ev["agent"]
                self._compare_agent(a, a.get_cash_amount(), dict(a.asset_volumes), "consulted")
        elif k == "log_write" and type(ev["log"]).__name__ in ("MarketStepBeginLog", "MarketStepEndLog", "SessionEndLog"):
            self._compare_all(type(ev["log"]).__name__)
        elif k == "log_write" and type(ev["log"]).__name__ == "ExecutionLog":
            self.__dict__.setdefault("logged_fills", []).append(ev["log"])
        elif k == "runner_run_ret":
            self._compare_all("end")
            # the fills reported to the logger are the fills the holdings were folded with (returned by the rounds)
            rep = self.__dict__.get("logged_fills")
            if rep is not None and self.ledger.ready:
                returned = self.__dict__.get("returned_ids", set())
                lost = [l for l in rep if id(l) not in returned]
                if lost:
                    self.res.violation("holdings", "holdings-differ-from-endowment-folded-with-fills:reported-but-not-settled",
                                       {"fills_reported_to_the_logger": len(rep), "fills_settled": len(returned),
                                        "first_unsettled": taps.snap_log(lost[0])})

    def finish(self, case):
        res = self.res
        if self.self_trades:
            res.count("class/run_with_self_trade")
        if self.max_fills_round >= 3:
            res.count("class/run_with_round_of_3plus_fills")
        if self.hft_fills:
            res.count("class/run_with_fills_on_hft_path")
        res.count("fills", self.ledger.n_fills)
        res.count("self_trades", self.self_trades)
        res.maximum("max_fills_in_one_round", self.max_fills_round)
        res.seen(canon_hash([case.get("seed"), self.ledger.n_fills, self.self_trades, self.max_fills_round]),
                 self.self_trades > 0 or self.max_fills_round >= 3)


# ---------------------------------------------------------------------------
# C04
# ---------------------------------------------------------------------------
class C04Monitor(BookTracker):
    def __init__(self, res):
        super().__init__()
        self.res = res
        self.accepted_objs = {}      # id(order obj) -> (obj, oid, market)
        self.returned_by = {}        # id(order obj) -> agent id that returned it from submit_orders
        self.fill_sum = collections.Counter()
        self.terminal = {}
        self.exp_logs = {}           # market_id -> list of ExpirationLog seen during the current clock update
        self.in_clock = set()
        self.hostile = []
        self.shapes = set()
        self.mkts = {}

    # -- helpers ---------------------------------------------------------------
    def _book_vs_live(self, mkt, book, where):
        """public depth / length versus the shadow book (positive volume, exact leave time)."""
        res = self.res
        res.count("book_comparisons")
        for is_buy, ob, getter in ((True, mkt.buy_order_book, mkt.get_buy_order_book),
                                   (False, mkt.sell_order_book, mkt.get_sell_order_book)):
            depth = list(getter().items())
            exp = book.depth(is_buy)
            n_exp = sum(1 for so in book.live.values() if so.is_buy == is_buy)
            if any(v <= 0 for _, v in depth):
                res.violation("positive", "resting-order-with-non-positive-volume",
                              {"where": where, "depth": depth[:10]})
                return False
            if depth != exp or len(ob) != n_exp:
                res.violation(
                    "leaves-exactly", "book-content-differs-from-accepted-minus-filled-cancelled-expired",
                    {"where": where, "side": "buy" if is_buy else "sell", "observed_depth": depth[:10],
                     "expected_depth": exp[:10], "observed_len": len(ob), "expected_len": n_exp,
                     "time": mkt.get_time(),
                     "shadow": [so.brief() for so in book.side(is_buy)][:10]},
                )
                return False
        for so in book.live.values():
            if so.obj is not None and so.obj.volume != so.rem:
                res.violation("volume", "order-volume-held-by-agent-differs-from-accepted-minus-fills",
                              {"where": where, "order": so.brief(), "object_volume": so.obj.volume})
                return False
        return True

    # -- hooks -----------------------------------------------------------------
    def on_other(self, ev):
        k = ev["k"]
        res = self.res
        if k == "consult_ret":
            for o in ev["orders"]:
                if type(o).__name__ == "Order":
                    self.returned_by[id(o)] = (o, ev["agent"].agent_id)
        elif k == "hostile":
            self.hostile.append(ev)
        elif k == "refused_ret":
            if ev["mkt"].market_id in self.books:
                self._book_vs_live(ev["mkt"], self.book(ev["mkt"]), "after-refused-request")
        elif k == "time_call":
            self.in_clock.add(ev["mkt"].market_id)
            self.exp_logs[ev["mkt"].market_id] = []
        elif k == "log_write" and type(ev["log"]).__name__ == "ExpirationLog":
            self.exp_logs.setdefault(ev["log"].market_id, []).append(ev["log"])
        elif k == "add_call":
            self.mkts[ev["mkt"].market_id] = ev["mkt"]
            self._pre_add = (ev["order"], ev["snap"])

    def on_accept(self, ev, book, so):
        res = self.res
        res.count("acceptances")
        o = ev["order"]
        pre = self._pre_add[1] if getattr(self, "_pre_add", None) and self._pre_add[0] is o else None
        if id(o) in self.accepted_objs:
            res.violation("once", "order-object-accepted-twice", {"order": ev["snap"]})
        self.accepted_objs[id(o)] = (o, so.oid, ev["mkt"].market_id)
        if pre is not None and pre["market_id"] != ev["mkt"].market_id:
            res.violation("names-market", "order-accepted-by-a-market-it-does-not-name",
                          {"order": pre, "accepting_market": ev["mkt"].market_id})
        rb = self.returned_by.get(id(o))
        if rb is not None and pre is not None and rb[1] != pre["agent_id"]:
            res.violation("owner", "order-accepted-from-an-agent-that-is-not-its-owner",
                          {"order": pre, "submitted_by": rb[1]})
        if pre is not None and (pre["placed_at"] is not None or pre["order_id"] is not None):
            res.violation("once", "order-with-acceptance-stamp-accepted-again", {"order": pre})
        if so.vol0 <= 0:
            res.violation("positive", "order-with-non-positive-volume-accepted", {"order": ev["snap"]})
        if so.ttl is not None and so.ttl <= 0:
            res.count("accepted_with_nonpositive_ttl")
        if ev["log"].time != ev["time"] or o.placed_at != ev["time"]:
            res.violation("stamp", "acceptance-time-is-not-market-time", {"order": ev["snap"], "market_time": ev["time"]})
        if o.is_canceled:
            res.count("accepted_order_already_marked_cancelled")
        self._book_vs_live(ev["mkt"], book, "after-accept")

    def on_round(self, ev, book, pre, fills):
        res = self.res
        for log, b, s in fills:
            res.count("fills")
            for so, oid, side in ((b, log.buy_order_id, "buy"), (s, log.sell_order_id, "sell")):
                if so is None:
                    old = book.all.get(oid)
                    state = old.state if old is not None else "never-accepted"
                    res.violation("no-fill-after-end", "fill-of-an-order-that-is-" + state,
                                  {"fill": taps.snap_log(log), "order": old.brief() if old else None})
                    continue
                self.fill_sum[(book.market_id, oid)] += log.volume
                if so.ttl is not None and log.time > so.placed_at + so.ttl:
                    res.violation("lifetime", "fill-later-than-acceptance-time-plus-ttl",
                                  {"fill": taps.snap_log(log), "order": so.brief()})
                if so.ttl is not None and log.time == so.placed_at + so.ttl:
                    res.count("class/fill_in_last_live_step")
                if so.rem < 0:
                    res.violation("volume", "filled-more-than-accepted-volume", {"order": so.brief()})
                if so.state == "filled":
                    self._lifetime_shape(so, "filled")
        self._book_vs_live(ev["mkt"], book, "after-round")

    def _lifetime_shape(self, so, terminal):
        shape = (min(so.fills, 3), terminal, "none" if so.ttl is None else ("1" if so.ttl == 1 else "n"), so.is_market)
        self.shapes.add(shape)

    def on_cancel(self, ev, book, so):
        res = self.res
        res.count("cancels")
        log = ev["log"]
        o = ev["order"]
        if not o.is_canceled:
            res.violation("cancel-mark", "cancelled-order-not-marked-cancelled", {"order": ev["snap"]})
        key = (book.market_id, log.order_id)
        old = book.all.get(log.order_id)
        if so is not None:
            # first terminal event of a resting order
            if so.vol0 != self.fill_sum[key] + log.volume:
                res.violation("identity", "accepted-volume-not-fills-plus-volume-at-cancel",
                              {"order": so.brief(), "fills": self.fill_sum[key], "cancel_volume": log.volume})
            if so.fills > 0:
                res.count("class/partial_fill_then_cancel")
            res.count("class/cancel_of_resting")
            self._lifetime_shape(so, "cancelled")
        elif old is not None:
            res.count("class/cancel_after_" + old.state)
        if old is not None and (o.volume != max(old.rem, 0) or log.volume != max(old.rem, 0)):
            res.violation("identity", "cancel-changed-or-misreported-the-remaining-volume",
                          {"order": old.brief(), "object_volume": o.volume, "cancel_volume": log.volume})
        self._book_vs_live(ev["mkt"], book, "after-cancel")

    def on_clock(self, ev, book, expired):
        res = self.res
        mkt = ev["mkt"]
        now = ev["time"]
        self.in_clock.discard(mkt.market_id)
        logs = self.exp_logs.pop(mkt.market_id, [])
        if mkt.logger is not None:
            exp_ids = sorted(so.oid for so in expired)
            got_ids = sorted(l.order_id for l in logs)
            if exp_ids != got_ids:
                res.violation(
                    "leaves-exactly", "expiries-reported-differ-from-orders-whose-lifetime-passed",
                    {"time": now, "expected_order_ids": exp_ids, "reported_order_ids": got_ids,
                     "expected": [so.brief() for so in expired][:8]},
                )
            else:
                byid = {so.oid: so for so in expired}
                for l in logs:
                    so = byid[l.order_id]
                    key = (book.market_id, so.oid)
                    if l.time != so.placed_at + so.ttl + 1 or l.time != now:
                        res.violation("leaves-exactly", "expiry-not-at-acceptance-time-plus-ttl-plus-one",
                                      {"expiry": taps.snap_log(l), "order": so.brief()})
                    if so.vol0 != self.fill_sum[key] + l.volume:
                        res.violation("identity", "accepted-volume-not-fills-plus-volume-at-expiry",
                                      {"order": so.brief(), "fills": self.fill_sum[key], "expiry_volume": l.volume})
        for so in expired:
            res.count("expiries")
            if so.ttl >= 40:
                res.count("class/expiry_of_long_lived_order")
            self._lifetime_shape(so, "expired")
            if so.fills:
                res.count("class/partial_fill_then_expiry")
        self._book_vs_live(mkt, book, "after-clock")

    def finish(self, out, case):
        res = self.res
        # end of run: resting volume identity
        for book in self.books.values():
            for so in book.live.values():
                key = (book.market_id, so.oid)
                if so.vol0 != self.fill_sum[key] + so.rem:
                    res.violation("identity", "accepted-volume-not-fills-plus-resting-volume", {"order": so.brief()})
                if so.obj is not None and so.obj.volume != so.rem:
                    if any(h["what"] == "resubmit" and h["obj"] is so.obj for h in self.hostile):
                        # the agent handed this (accepted) object to the runner a second time: before-order hooks
                        # are entitled to alter the pending order they are given, and they run before the market
                        # refuses it and the run is aborted - the object's fields say nothing about the book
                        res.count("resubmitted_object_altered_by_a_before_order_hook(not judged)")
                    else:
                        res.violation("identity", "order-volume-held-by-agent-differs-from-accepted-minus-fills",
                                      {"order": so.brief(), "object_volume": so.obj.volume})
                self._lifetime_shape(so, "resting")
            for so in book.all.values():
                if so.state == "filled" and self.fill_sum[(book.market_id, so.oid)] != so.vol0:
                    res.violation("identity", "filled-order-fills-do-not-sum-to-accepted-volume", {"order": so.brief()})
        for sh in self.shapes:
            res.seen(canon_hash([case.get("seed"), list(sh)]), sh[0] > 0 or sh[1] in ("cancelled", "expired"))
        # hostile actions must have been refused: no acceptance of the offending object, run aborted
        for h in self.hostile:
            what = h["what"]
            obj = h["obj"]
            res.count("hostile/" + what)
            if what == "resubmit":
                n = sum(1 for (lg, o) in out.accepts if o is obj)
                if n > 1:
                    res.violation("once", "resubmitted-order-accepted-again", {"order": taps.snap_order(obj)})
                else:
                    res.count("class/refused_resubmission")
            elif what == "spoof":
                if any(o is obj for (lg, o) in out.accepts):
                    res.violation("owner", "order-under-foreign-agent-id-accepted", {"order": taps.snap_order(obj)})
                else:
                    res.count("class/refused_spoofed_order")
                    if case.get("hostile_by") == "hft":
                        res.count("class/refused_spoofed_order_of_a_high_frequency_agent")
            elif what == "foreign_cancel":
                if any(c is obj for (lg, c) in out.cancels):
                    res.count("foreign_cancel_accepted(not part of the statement)")
                else:
                    res.count("class/refused_foreign_cancel")
            if out.error is None and what in ("resubmit", "spoof"):
                res.count("hostile_run_not_aborted")


# ---------------------------------------------------------------------------
# C10
# ---------------------------------------------------------------------------
EVENT_KINDS = ("OrderLog", "CancelLog", "ExecutionLog", "ExpirationLog")
STEP_KINDS = ("MarketStepBeginLog", "MarketStepEndLog")
BOUNDARY_KINDS = ("SimulationBeginLog", "SimulationEndLog", "SessionBeginLog", "SessionEndLog")


class C10Monitor(BookTracker):
    """ground truth = what the markets returned to the runner (orders, cancels, fills) plus expiries derived
    from the shadow book at each clock update; compared with what the Logger API received/processed."""

    def __init__(self, res):
        super().__init__()
        self.res = res
        self.gt = []            # ground-truth sequence: ("order"|"cancel"|"fill"|"expiry-set", payload, seq)
        self.recv = []          # (seq, log, via)
        self.proc = []          # (seq, log)
        self.direct_open = None
        self.order_snap = {}
        self.sim = None
        self.n_sessions = 0
        self.n_rounds_2 = 0
        self.both_side_expiry = 0
        self.clock_seq = {}
        self.cur_clock = None

    # -- ground truth -----------------------------------------------------------
    def on_accept(self, ev, book, so):
        self.gt.append(("order", ev["log"], ev["seq"], dict(ev["snap"], market_time=ev["time"])))

    def on_cancel(self, ev, book, so):
        old = book.all.get(ev["log"].order_id)
        self.gt.append(("cancel", ev["log"], ev["seq"], dict(ev["snap"], market_time=ev["time"],
                                                              rem=None if old is None else max(old.rem, 0))))

    def on_round(self, ev, book, pre, fills):
        for log, b, s in fills:
            self.gt.append(("fill", log, ev["seq"], {
                "market_time": ev["time"], "market_id": book.market_id,
                "buy": None if log.buy_order_id not in pre else pre[log.buy_order_id][0],
                "sell": None if log.sell_order_id not in pre else pre[log.sell_order_id][0]}))
        if len(fills) >= 2:
            self.n_rounds_2 += 1

    def on_clock(self, ev, book, expired):
        if expired:
            self.gt.append(("expiry-set", list(expired), ev["seq"], {"now": ev["time"], "market_id": book.market_id}))
        cs = self.clock_seq.setdefault(self.cur_clock, set())
        for so in expired:
            cs.add(so.is_buy)

    def on_other(self, ev):
        k = ev["k"]
        if k == "log_write":
            self.recv.append((ev["seq"], ev["log"], ev["via"]))
            if ev["via"] == "direct":
                self.direct_open = (ev["log"], ev["seq"], 0)
        elif k == "log_process":
            self.proc.append((ev["seq"], ev["log"]))
            if self.direct_open is not None and ev["log"] is self.direct_open[0]:
                self.direct_open = (self.direct_open[0], self.direct_open[1], self.direct_open[2] + 1)
        elif k == "log_direct_done":
            if self.direct_open is None or self.direct_open[0] is not ev["log"] or self.direct_open[2] != 1:
                self.res.violation("synchronous", "step-record-not-processed-exactly-once-inside-its-write-call",
                                   {"record": taps.snap_log(ev["log"]),
                                    "processed_inside": None if self.direct_open is None else self.direct_open[2]})
            self.direct_open = None
        elif k == "times_call":
            self.cur_clock = ev["seq"]
        elif k == "runner_setup_ret":
            self.sim = ev["runner"].simulator

    # -- offline comparison -----------------------------------------------------------
    def finish(self, out, case):
        res = self.res
        tname = lambda l: type(l).__name__  # noqa
        recv_ev = [(s, l) for s, l, _ in self.recv if tname(l) in EVENT_KINDS]
        res.count("records_received", len(self.recv))
        res.count("event_records_received", len(recv_ev))
        # 1. exactly once + order: walk both sequences
        exp_seq = []
        for kind, payload, seq, ctx in self.gt:
            if kind == "expiry-set":
                exp_seq.append(("expiry-set", payload, ctx))
            else:
                exp_seq.append((kind, payload, ctx))
        i = 0
        ok = True
        n_matched = 0
        for kind, payload, ctx in exp_seq:
            if kind == "expiry-set":
                want = {(ctx["market_id"], so.oid): so for so in payload}
                got = {}
                while len(got) < len(want) and i < len(recv_ev) and tname(recv_ev[i][1]) == "ExpirationLog":
                    l = recv_ev[i][1]
                    got[(l.market_id, l.order_id)] = l
                    i += 1
                if set(got) != set(want):
                    ok = False
                    res.violation(
                        "exactly-once", self._classify_stream_mismatch("expiry", recv_ev, i, want),
                        {"expected_expiries": [so.brief() for so in payload][:6],
                         "received_here": [taps.snap_log(l) for l in got.values()][:6],
                         "next_received": taps.snap_log(recv_ev[i][1]) if i < len(recv_ev) else None},
                    )
                    break
                for key, l in got.items():
                    so = want[key]
                    n_matched += 1
                    exp = {"order_id": so.oid, "market_id": ctx["market_id"], "time": ctx["now"], "order_time": so.placed_at,
                           "agent_id": so.agent_id, "is_buy": so.is_buy, "price": so.price, "volume": so.rem, "ttl": so.ttl}
                    self._fields("ExpirationLog", l, exp)
                continue
            if i >= len(recv_ev):
                ok = False
                res.violation("exactly-once", "record-never-delivered:" + kind,
                              {"missing": taps.snap_log(payload), "position": i})
                break
            l = recv_ev[i][1]
            same = l is payload or (type(l) is type(payload) and log_fields(l) == log_fields(payload))
            if not same:
                ok = False
                res.violation(
                    "exactly-once", self._classify_stream_mismatch(kind, recv_ev, i, payload),
                    {"expected_next": taps.snap_log(payload), "received_next": taps.snap_log(l),
                     "previous_received": taps.snap_log(recv_ev[i - 1][1]) if i else None, "position": i},
                )
                break
            i += 1
            n_matched += 1
            self._check_fields(kind, l, ctx)
        if ok and i < len(recv_ev):
            l = recv_ev[i][1]
            extra = tname(l)
            dup = any(x[1] is l or log_fields(x[1]) == log_fields(l) for x in recv_ev[:i])
            mech = {"ExecutionLog": "fill", "OrderLog": "order", "CancelLog": "cancel", "ExpirationLog": "expiry"}[extra]
            res.violation(
                "exactly-once",
                ("%s-record-delivered-more-than-once" % mech) if dup else ("%s-record-without-event" % mech),
                {"extra": taps.snap_log(l), "position": i, "n_expected": n_matched},
            )
        res.count("event_records_matched", n_matched)
        # also per-kind multiset sizes (diagnostic)
        # 2. processing: every received record processed exactly once, in receipt order per flush
        pc = collections.Counter(id(l) for _, l in self.proc)
        rc = collections.Counter(id(l) for _, l, _ in self.recv)
        for s, l, via in self.recv:
            if pc.get(id(l), 0) != rc[id(l)]:
                res.violation("processed", "record-received-but-not-processed-exactly-once",
                              {"record": taps.snap_log(l), "received": rc[id(l)], "processed": pc.get(id(l), 0)})
                break
        # order of processing of pending records equals order of receipt
        pend_recv = [id(l) for s, l, via in self.recv if via in ("write", "bulk_write")]
        pend_proc = [id(l) for s, l in self.proc if tname(l) not in STEP_KINDS]
        if pend_recv != pend_proc and sorted(pend_recv) == sorted(pend_proc):
            res.violation("order", "records-processed-in-a-different-order-than-received", {})
        # 3. latest at the next session boundary
        proc_seq = {}
        for s, l in self.proc:
            proc_seq.setdefault(id(l), s)
        pending = []
        for s, l, via in self.recv:
            n = tname(l)
            if n in STEP_KINDS:
                continue
            pending.append((s, l))
            if n in BOUNDARY_KINDS:
                bseq = proc_seq.get(id(l))
                if bseq is None:
                    res.violation("boundary", "boundary-record-never-processed", {"record": n})
                    pending = []
                    continue
                for s2, l2 in pending:
                    p2 = proc_seq.get(id(l2))
                    if p2 is None or p2 > bseq:
                        res.violation("boundary", "record-not-processed-by-the-next-session-boundary",
                                      {"record": taps.snap_log(l2), "boundary": n})
                        break
                pending = []
        if pending:
            res.violation("boundary", "records-left-unprocessed-after-the-last-boundary",
                          {"first": taps.snap_log(pending[0][1]), "count": len(pending)})
        # 3b. step records are delivered synchronously: processed before anything else reaches the logger
        order = [(sq, "w", l) for sq, l, _ in self.recv] + [(sq, "p", l) for sq, l in self.proc]
        order.sort(key=lambda x: x[0])
        waiting = None
        for sq, kind, l in order:
            if waiting is not None:
                if kind == "p" and l is waiting:
                    waiting = None
                    continue
                res.violation("synchronous", "step-record-not-processed-exactly-once-inside-its-write-call",
                              {"record": taps.snap_log(waiting), "next_event": kind + ":" + tname(l)})
                break
            if kind == "w" and tname(l) in STEP_KINDS:
                waiting = l
        # 4. begin/end records and nesting
        self._nesting(case)
        # classes
        if self.n_rounds_2:
            res.count("class/run_with_round_of_2plus_fills")
        if any(len(v) == 2 for v in self.clock_seq.values()):
            res.count("class/expiries_on_both_sides_in_one_clock_update")
        nsess = len(case["config"]["simulation"]["sessions"])
        if nsess >= 2:
            res.count("class/run_with_2plus_sessions")
        kinds = collections.Counter(k for k, *_ in self.gt)
        res.count("gt_orders", kinds["order"])
        res.count("gt_cancels", kinds["cancel"])
        res.count("gt_fills", kinds["fill"])
        res.count("gt_expiries", sum(len(p) for k, p, *_ in self.gt if k == "expiry-set"))
        res.seen(canon_hash([case.get("seed"), dict(kinds)]), kinds["fill"] > 0 and (kinds["cancel"] > 0 or kinds["expiry-set"] > 0))

    def _classify_stream_mismatch(self, kind, recv_ev, i, payload):
        """mechanism key for a divergence between the event sequence and the record sequence."""
        if i < len(recv_ev):
            l = recv_ev[i][1]
            dup = any(x[1] is l or log_fields(x[1]) == log_fields(l) for x in recv_ev[:i])
            mech = {"ExecutionLog": "fill", "OrderLog": "order", "CancelLog": "cancel", "ExpirationLog": "expiry"}[
                type(l).__name__]
            if dup:
                return "%s-record-delivered-more-than-once" % mech
        # is the expected record delivered later? then it is an ordering problem, otherwise a loss
        if kind != "expiry":
            later = any(x[1] is payload or log_fields(x[1]) == log_fields(payload) for x in recv_ev[i:])
            return ("%s-record-delivered-out-of-order" % kind) if later else ("record-never-delivered:" + kind)
        later_ids = {(x[1].market_id, x[1].order_id) for x in recv_ev[i:] if type(x[1]).__name__ == "ExpirationLog"}
        return "expiry-record-delivered-out-of-order" if set(payload) <= later_ids else "record-never-delivered:expiry"

    def _fields(self, name, log, exp):
        got = taps.snap_log(log)
        for k, v in exp.items():
            if got.get(k) != v:
                self.res.violation("fields", "record-field-differs-from-event-value:%s.%s" % (name, k),
                                   {"record": got, "expected": {k: v}})
                return False
        return True

    def _check_fields(self, kind, l, ctx):
        if kind == "order":
            exp = {"order_id": ctx["order_id"], "market_id": ctx["market_id"], "time": ctx["market_time"],
                   "agent_id": ctx["agent_id"], "is_buy": ctx["is_buy"], "kind": ctx["kind"], "volume": ctx["volume"],
                   "price": ctx["price"], "ttl": ctx["ttl"]}
            self._fields("OrderLog", l, exp)
        elif kind == "cancel":
            exp = {"order_id": ctx["order_id"], "market_id": ctx["market_id"], "cancel_time": ctx["market_time"],
                   "order_time": ctx["placed_at"], "agent_id": ctx["agent_id"], "is_buy": ctx["is_buy"],
                   "kind": ctx["kind"], "volume": ctx["volume"] if ctx["rem"] is None else ctx["rem"],
                   "price": ctx["price"], "ttl": ctx["ttl"]}
            self._fields("CancelLog", l, exp)
        elif kind == "fill":
            b, s = ctx["buy"], ctx["sell"]
            exp = {"market_id": ctx["market_id"], "time": ctx["market_time"]}
            if b is not None:
                exp["buy_agent_id"] = b.agent_id
                exp["buy_order_id"] = b.oid
            if s is not None:
                exp["sell_agent_id"] = s.agent_id
                exp["sell_order_id"] = s.oid
            self._fields("ExecutionLog", l, exp)

    def _nesting(self, case):
        res = self.res
        seq = [(type(l).__name__, l) for _, l, _ in self.recv if type(l).__name__ in STEP_KINDS + BOUNDARY_KINDS]
        sessions = case["config"]["simulation"]["sessions"]
        n_markets = len(self.sim.markets) if self.sim is not None else None
        exp = ["SimulationBeginLog"]
        for si, s in enumerate(sessions):
            exp.append(("SessionBeginLog", si))
            for _ in range(s["iterationSteps"]):
                exp.append(("steps", si))
            exp.append(("SessionEndLog", si))
        exp.append("SimulationEndLog")
        i = 0
        for e in exp:
            if i >= len(seq):
                res.violation("nesting", "begin-end-records-missing", {"expected": repr(e), "position": i})
                return
            if e in ("SimulationBeginLog", "SimulationEndLog"):
                if seq[i][0] != e:
                    res.violation("nesting", "begin-end-records-out-of-place", {"expected": e, "got": seq[i][0], "position": i})
                    return
                i += 1
            elif e[0] in ("SessionBeginLog", "SessionEndLog"):
                if seq[i][0] != e[0] or seq[i][1].session.session_id != e[1]:
                    res.violation("nesting", "begin-end-records-out-of-place",
                                  {"expected": e, "got": seq[i][0], "position": i})
                    return
                i += 1
            else:
                # one step: a Begin for every market, then an End for every market
                for want in ("MarketStepBeginLog", "MarketStepEndLog"):
                    ids = []
                    while i < len(seq) and seq[i][0] == want and len(ids) < n_markets:
                        ids.append(seq[i][1].market.market_id)
                        if seq[i][1].session.session_id != e[1]:
                            res.violation("nesting", "step-record-names-wrong-session", {"position": i})
                            return
                        i += 1
                    if sorted(ids) != sorted(m.market_id for m in self.sim.markets):
                        res.violation("nesting", "step-records-not-one-per-market",
                                      {"kind": want, "markets": ids, "position": i, "session": e[1]})
                        return
                self.res.count("steps_checked")
        if i != len(seq):
            res.violation("nesting", "extra-begin-end-records", {"extra": seq[i][0], "position": i})


# ---------------------------------------------------------------------------
# C11
# ---------------------------------------------------------------------------
class C11Monitor:
    def __init__(self, res):
        self.owners = Owners()
        self.res = res
        self.ledger = Ledger()
        self.gt = []        # (kind, log, parties)
        self.cbs = []       # (agent_id, what, log, hold, seq)
        self.self_trades = 0
        self.max_round = 0
        self.in_hft = False
        self.hft_events = 0
        self.normal_events = 0
        self.sim = None

    def on_event(self, ev):
        k = ev["k"]
        self.owners.on_event(ev)
        if k == "runner_setup_ret":
            self.sim = ev["runner"].simulator
            self.ledger.capture(self.sim)
        elif k == "consult_call":
            self.in_hft = ev["hft"]
        elif k == "add_ret":
            self.gt.append(("submitted", ev["log"], [self.owners.of_order(ev["order"], ev["log"].agent_id)], ev["seq"]))
            self._path()
        elif k == "cancel_ret":
            self.gt.append(("canceled", ev["log"], [self.owners.of_order(ev["cancel"], self.owners.of_order(
                ev["order"], ev["log"].agent_id))], ev["seq"]))
            self._path()
        elif k == "exec_ret":
            for log in ev["logs"]:
                b_, s_ = self.owners.parties(log)
                self.ledger.apply(log, (b_, s_))
                self.gt.append(("executed", log, [b_, s_], ev["seq"]))
                if b_ == s_:
                    self.self_trades += 1
            self.max_round = max(self.max_round, len(ev["logs"]))
        elif k == "cb":
            self.cbs.append((ev["agent"].agent_id, ev["what"], ev["log"], ev["hold"], ev["seq"]))
            if ev["what"] == "executed" and self.ledger.ready:
                cash, sh = ev["hold"]
                d = self.ledger.agrees(ev["agent"].agent_id, cash, sh)
                self.res.count("holdings_checked_at_fill_callback")
                if d is not None:
                    self.res.violation("after-holdings", "fill-callback-before-holdings-of-the-round-were-updated",
                                       dict(d, fill=taps.snap_log(ev["log"])))

    def _path(self):
        if self.in_hft:
            self.hft_events += 1
        else:
            self.normal_events += 1

    def finish(self, out, case):
        res = self.res
        # expected multiset of (agent, what, record) versus observed
        exp = collections.Counter()
        rec = {}
        for what, log, parties, seq in self.gt:
            for a in parties:
                exp[(a, what, id(log))] += 1
            rec[id(log)] = log
        obs = collections.Counter()
        by_fields = {}
        for a, what, log, hold, seq in self.cbs:
            key = id(log)
            if key not in rec:
                # not the same object: accept a field-equal record of the same type (refactoring-robust)
                cands = by_fields or {}
                if not by_fields:
                    for lid, l in rec.items():
                        by_fields.setdefault((type(l).__name__, log_fields(l)), []).append(lid)
                lst = by_fields.get((type(log).__name__, log_fields(log)))
                if lst:
                    key = lst[0]
            obs[(a, what, key)] += 1
            rec.setdefault(key, log)
        res.count("callbacks_observed", sum(obs.values()))
        res.count("callbacks_expected", sum(exp.values()))
        scripted = {a.agent_id for a in self.sim.agents if hasattr(a, "program")} if self.sim else set()
        tapped = scripted | ({a.agent_id for a in self.sim.agents} if self.sim and taps.hits.get("agent_cb_base", -1) >= 0 else set())
        for key in set(exp) | set(obs):
            a, what, lid = key
            if a not in tapped:
                continue
            e, o = exp.get(key, 0), obs.get(key, 0)
            if e != o:
                log = rec.get(lid)
                if e == 0:
                    mech = "agent-notified-of-an-event-it-is-not-party-to"
                elif o == 0:
                    mech = "party-not-notified:" + what
                elif o > e:
                    mech = "party-notified-more-than-once:" + what
                else:
                    mech = "party-notified-fewer-times-than-its-roles:" + what
                res.violation("exactly-once", mech, {"agent": a, "what": what, "expected": e, "observed": o,
                                                     "record": taps.snap_log(log) if log is not None else None})
                break
        if self.self_trades:
            res.count("class/run_with_self_trade")
        if self.max_round >= 3:
            res.count("class/run_with_round_of_3plus_fills")
        if self.hft_events:
            res.count("class/run_with_hft_path_events")
        if self.normal_events:
            res.count("class/run_with_normal_path_events")
        res.count("self_trades", self.self_trades)
        res.seen(canon_hash([case.get("seed"), sum(exp.values())]), self.self_trades > 0 or self.max_round >= 3)
