"""Observation points: record-and-forward wrappers installed at run time on the imported
pams classes (no repository edit).  Wrappers never change arguments, results, call order or
RNG consumption; each counts its hits so that a bypassed tap shows up as "inconclusive".

Events are dicts {"k": kind, "seq": n, ...} pushed synchronously to the registered sinks;
they carry live object references (read-only for monitors) plus value snapshots.
"""
import collections
import functools

_installed = False
_sinks = []
hits = collections.Counter()
_seq = [0]


def add_sink(fn):
    _sinks.append(fn)


def remove_sink(fn):
    if fn in _sinks:
        _sinks.remove(fn)


def clear_sinks():
    del _sinks[:]


def emit(_k, **kw):
    _seq[0] += 1
    kw["k"] = _k
    kw["seq"] = _seq[0]
    for s in list(_sinks):
        s(kw)
    return kw


def snap_order(o):
    return {
        "agent_id": o.agent_id,
        "market_id": o.market_id,
        "is_buy": o.is_buy,
        "kind": getattr(o.kind, "name", repr(o.kind)),
        "volume": o.volume,
        "price": o.price,
        "ttl": o.ttl,
        "placed_at": o.placed_at,
        "order_id": o.order_id,
        "is_canceled": o.is_canceled,
    }


def snap_log(log):
    d = {"type": type(log).__name__}
    for k, v in vars(log).items():
        if k in ("simulator", "session", "market"):
            continue
        d[k] = getattr(v, "name", v) if k == "kind" else v
    if hasattr(log, "session"):
        d["session_id"] = log.session.session_id
    if hasattr(log, "market"):
        d["market_id"] = log.market.market_id
    return d


def _wrap(cls, name, make):
    orig = cls.__dict__.get(name)
    if orig is None:
        raise RuntimeError("observation point %s.%s does not exist" % (cls.__name__, name))
    w = make(orig)
    functools.update_wrapper(w, orig)
    w.__pamsmon_orig__ = orig
    setattr(cls, name, w)


def install():
    """install all wrappers once per process."""
    global _installed
    if _installed:
        return
    import pams
    from pams.market import Market
    from pams.simulator import Simulator
    from pams.fundamentals import Fundamentals

    def mk_add(orig):
        def _add_order(self, order, *a, **kw):
            hits["add"] += 1
            if not _sinks:
                return orig(self, order, *a, **kw)
            emit("add_call", mkt=self, order=order, snap=snap_order(order), time=self.time, running=self.is_running)
            try:
                log = orig(self, order, *a, **kw)
            except BaseException as e:
                emit("add_exc", mkt=self, order=order, exc=e, snap=snap_order(order))
                raise
            emit("add_ret", mkt=self, order=order, log=log, snap=snap_order(order), time=self.time, running=self.is_running)
            return log

        return _add_order

    def mk_cancel(orig):
        def _cancel_order(self, cancel, *a, **kw):
            hits["cancel"] += 1
            if not _sinks:
                return orig(self, cancel, *a, **kw)
            emit("cancel_call", mkt=self, cancel=cancel, order=cancel.order, snap=snap_order(cancel.order),
                 cancel_placed_at=cancel.placed_at, time=self.time, running=self.is_running)
            try:
                log = orig(self, cancel, *a, **kw)
            except BaseException as e:
                emit("cancel_exc", mkt=self, cancel=cancel, order=cancel.order, exc=e)
                raise
            emit("cancel_ret", mkt=self, cancel=cancel, order=cancel.order, log=log, snap=snap_order(cancel.order),
                 time=self.time, running=self.is_running)
            return log

        return _cancel_order

    def mk_exec(orig):
        def _execution(self, *a, **kw):
            hits["exec"] += 1
            if not _sinks:
                return orig(self, *a, **kw)
            emit("exec_call", mkt=self, time=self.time, running=self.is_running)
            try:
                logs = orig(self, *a, **kw)
            except BaseException as e:
                emit("exec_exc", mkt=self, exc=e, time=self.time, running=self.is_running)
                raise
            emit("exec_ret", mkt=self, logs=logs, time=self.time, running=self.is_running)
            return logs

        return _execution

    def mk_update_time(orig):
        def _update_time(self, next_fundamental_price, *a, **kw):
            hits["update_time"] += 1
            if not _sinks:
                return orig(self, next_fundamental_price, *a, **kw)
            emit("time_call", mkt=self, time=self.time, running=self.is_running, fund=next_fundamental_price)
            try:
                r = orig(self, next_fundamental_price, *a, **kw)
            except BaseException as e:
                emit("time_exc", mkt=self, exc=e)
                raise
            emit("time_ret", mkt=self, time=self.time, running=self.is_running, fund=next_fundamental_price)
            return r

        return _update_time

    _wrap(Market, "_add_order", mk_add)
    _wrap(Market, "_cancel_order", mk_cancel)
    _wrap(Market, "_execution", mk_exec)
    _wrap(Market, "_update_time", mk_update_time)

    def mk_update_times(orig):
        def _update_times_on_markets(self, markets, *a, **kw):
            hits["update_times"] += 1
            if not _sinks:
                return orig(self, markets, *a, **kw)
            emit("times_call", sim=self)
            r = orig(self, markets, *a, **kw)
            emit("times_ret", sim=self)
            return r

        return _update_times_on_markets

    def mk_update_agents(orig):
        def _update_agents_for_execution(self, execution_logs, *a, **kw):
            hits["update_agents"] += 1
            if not _sinks:
                return orig(self, execution_logs, *a, **kw)
            emit("holdings_call", sim=self, logs=execution_logs)
            r = orig(self, execution_logs, *a, **kw)
            emit("holdings_ret", sim=self, logs=execution_logs)
            return r

        return _update_agents_for_execution

    _wrap(Simulator, "_update_times_on_markets", mk_update_times)
    _wrap(Simulator, "_update_agents_for_execution", mk_update_agents)

    def mk_trigger(kind):
        def make(orig):
            def trig(self, *a, **kw):
                hits["trigger_" + kind] += 1
                if not _sinks:
                    return orig(self, *a, **kw)
                arg = a[0] if a else next(iter(kw.values()))
                emit("trig_call", sim=self, what=kind, arg=arg)
                r = orig(self, *a, **kw)
                emit("trig_ret", sim=self, what=kind, arg=arg)
                return r

            return trig

        return make

    for kind in (
        "before_order",
        "after_order",
        "before_cancel",
        "after_cancel",
        "after_execution",
        "before_session",
        "after_session",
        "before_step_for_market",
        "after_step_for_market",
    ):
        _wrap(Simulator, "_trigger_event_" + kind, mk_trigger(kind))

    def mk_genlog(orig):
        def _generate_log_return(self, generate_target_ids, length, *a, **kw):
            hits["gen_log_return"] += 1
            if not _sinks:
                return orig(self, generate_target_ids, length, *a, **kw)
            emit("genlr_call", fund=self, ids=list(generate_target_ids), length=length,
                 generated_until=self._generated_until)
            r = orig(self, generate_target_ids, length, *a, **kw)
            emit("genlr_ret", fund=self, ids=list(generate_target_ids), length=length, ret=r)
            return r

        return _generate_log_return

    _wrap(Fundamentals, "_generate_log_return", mk_genlog)

    # built-in agents inherit the no-op callbacks of Agent: tap those (scripted agents override them)
    from pams.agents.base import Agent

    def mk_cb(what):
        def make(orig):
            def cb(self, log):
                hits["agent_cb_base"] += 1
                if _sinks:
                    emit("cb", agent=self, what=what, log=log, hold=(self.cash_amount, dict(self.asset_volumes)))
                return orig(self, log)

            return cb

        return make

    hits["agent_cb_base"] += 0
    _wrap(Agent, "submitted_order", mk_cb("submitted"))
    _wrap(Agent, "canceled_order", mk_cb("canceled"))
    _wrap(Agent, "executed_order", mk_cb("executed"))
    _installed = True
