#!/usr/bin/env python3
"""(re)generate MANIFEST.json from the table below; properties without a built check go to not_applicable."""
import json
import os

VERIF = os.path.dirname(os.path.dirname(os.path.abspath(__file__)))

CHECKS = {
    "C01": ("online shadow-book oracle over every matching round (limits, single price, last-pair price rule)",
            "Held on the matching rounds observed: each round produced by generated direct-drive histories and "
            "runner-drive simulations is judged against a shadow book kept from boundary events."),
    "C02": ("online priority oracle per round + best-order invariant at quiescent points + operator table on live order pairs",
            "Held on the rounds, quiescent points and order pairs observed; priority is decided by the monitor's own key."),
    "C03": ("post-condition on the public getters after every round; exceptions and a logical line budget as termination watchdog",
            "Held on the rounds observed, incl. books with market orders on both sides and crossed backlogs."),
    "C04": ("offline life-cycle checker over acceptance/fill/cancel/expiry records + book-vs-shadow invariant after every boundary return + hostile single-action runs",
            "Held on the order lifetimes observed in runner- and direct-drive executions, and on the refusals of the hostile actions tried."),
    "C05": ("conservation ledger (endowment folded with returned fills) compared with holdings at callbacks, consultations, step records and end",
            "Held on the runs observed (self-trades, many-fill rounds, HFT path)."),
    "C08": ("reference state machine for price/quote/statistics series compared with every public getter after every boundary return",
            "Held on the comparison points observed in direct drive (running toggles) and runner drive (session switches, halts)."),
    "C10": ("offline exactly-once / order / field / nesting / deadline checker over the Logger API stream versus ground truth from market return values and shadow-derived expiries",
            "Held on the runs observed."),
    "C11": ("multiset comparison of expected and observed agent callbacks + holdings-at-callback ledger check",
            "Held on the runs observed, normal and HFT paths, scripted and base-class callbacks."),
    "C19": ("exact-rational oracle on accepted versus submitted price over generated (tick, price, side) triples",
            "Held on the acceptances observed; exact for power-of-two ticks, 4-ulp slack otherwise."),
}
EXTRA = {}
try:
    EXTRA = json.load(open(os.path.join(VERIF, "tools", "manifest_extra.json")))
except FileNotFoundError:
    pass
CHECKS.update({k: tuple(v) for k, v in EXTRA.items()})

NOTE = ("Trusted base: CPython, the harness (taps record-and-forward only; shadow models written from the statement), "
        "and the generators' input domain (DESIGN.md 2.6). Nothing is claimed for executions the workload does not produce.")


def main():
    checks = []
    for pid in sorted(CHECKS):
        tech, text = CHECKS[pid]
        if not os.path.exists(os.path.join(VERIF, "pamsmon", "props", pid.lower() + ".py")):
            continue
        checks.append({
            "property_id": pid,
            "quick_cmd": "./check %s --tier quick" % pid,
            "thorough_cmd": "./check %s --tier thorough" % pid,
            "evidence_file": "evidence/%s.json" % pid,
            "replay_cmd_template": "./check %s --replay {path}" % pid,
            "engine": "pamsmon",
            "level_claimed": {"category": "exploration", "text": text, "design_ref": "DESIGN.md section 3, " + pid},
            "level_note": NOTE,
            "technique": "runtime monitoring: " + tech,
        })
    claimed = {c["property_id"] for c in checks}
    man = {
        "version": 1,
        "setup_cmd": "mkdir -p evidence replays && /venv/bin/python -B -c \"import sys; sys.path.insert(0,'/verif'); from pamsmon import bootstrap; bootstrap.init(); import pams; print('pams from', pams.__file__)\"",
        "hooks": {
            "guard": "PAMS_VERIF",
            "enable": "no source hooks: observation points are installed at run time by pamsmon/taps.py on the classes imported from /repo; PAMS_VERIF=1 is exported by the checks to their child processes only and nothing in /repo reads it",
            "baseline_off_cmd": "cd /repo && /venv/bin/python -m pytest -ra -q -p no:cacheprovider --timeout=900 --continue-on-collection-errors",
            "source_commits": [],
            "add_only": True,
        },
        "engines": [{"name": "pamsmon", "path": "pamsmon", "serves_properties": sorted(claimed),
                     "kind_free_text": "runtime monitors (shadow-state reference models, trace checkers, statistical monitors) over generated direct-drive and runner-drive workloads on the real code; fan-out over subprocess shards"}],
        "checks": checks,
        "notes": "All verdicts are three-valued: exit 0 held on what was observed, exit 1 violation (VIOLATION line + replay file), exit 2 inconclusive (monitor did not see enough). See DESIGN.md.",
        "not_applicable": [
            {"property_id": "C%02d" % i,
             "reason": "check not built yet (work in progress); to be decided by runtime monitoring as laid out in DESIGN.md section 3"}
            for i in range(1, 21) if "C%02d" % i not in claimed
        ],
    }
    with open(os.path.join(VERIF, "MANIFEST.json"), "w") as f:
        json.dump(man, f, indent=1)
        f.write("\n")
    print("claimed:", sorted(claimed))


if __name__ == "__main__":
    main()
