#!/usr/bin/env python3
import glob, json, os
V = os.path.dirname(os.path.dirname(os.path.abspath(__file__)))
rows = ["# Changes seeded by independent agents", "",
        "Each agent saw only the text of one property and a scratch worktree. `verify` = my own re-run on a scratch copy: "
        "baseline tests with the patch, demonstration with and without the patch. `checks` = result of the listed "
        "checks against the patched scratch copy (first = as first run, later entries after strengthening; see notes).", "",
        "| id | property | what the change does | needs | verify | checks |", "|---|---|---|---|---|---|"]
for d in sorted(glob.glob(os.path.join(V, "seeded", "S-*"))):
    sid = os.path.basename(d)
    v = json.load(open(os.path.join(d, "verif.json")))
    try:
        m = json.load(open(os.path.join(d, "meta.json")))
    except Exception:
        m = {}
    ver = v.get("verification", {})
    vs = "tests: %s; demo with patch exit %s, without exit %s" % (ver.get("tests_with_patch", "?").split(" in ")[0],
                                                                 ver.get("demo_with_patch", ["?"])[0], ver.get("demo_without_patch", ["?"])[0])
    ch = "; ".join("%s: %s" % (k, str(x)[:120]) for k, x in sorted(v.get("checks", {}).items()))
    if v.get("first_result"):
        ch = "first run: " + v["first_result"] + " -> now " + ch
    summ = str(m.get("summary", ""))[:260].replace("|", "/").replace("\n", " ")
    needs = str(m.get("needs", ""))[:260].replace("|", "/").replace("\n", " ")
    rows.append("| %s | %s | %s | %s | %s | %s |" % (sid, v.get("property"), summ, needs, vs, ch))
    if v.get("note"):
        rows.append("| | | note: %s | | | |" % v["note"])
open(os.path.join(V, "seeded", "RESULTS.md"), "w").write("\n".join(rows) + "\n")
print(len(rows) - 6, "seeded changes")
