#!/usr/bin/env python3
import glob, json, os
V = os.path.dirname(os.path.dirname(os.path.abspath(__file__)))
rows = ["# Changes seeded by independent agents", "",
        "Each agent saw only the text of one property and a scratch worktree. `verify` = my own re-run on a scratch copy: "
        "baseline tests with the patch, demonstration with and without the patch. `checks` = result of the listed "
        "checks against the patched scratch copy; where a later regression over several seeds exists (`tools/regress_seeded.sh`), its result replaces that of the first run. A change counts as caught when at least one listed check reports it.", "",
        "| id | property | what the change does | needs | verify | checks |", "|---|---|---|---|---|---|"]
for d in sorted(glob.glob(os.path.join(V, "seeded", "S-*"))):
    sid = os.path.basename(d)
    v = json.load(open(os.path.join(d, "verif.json")))
    try:
        m = json.load(open(os.path.join(d, "meta.json")))
    except Exception:
        m = {}
    ver = v.get("verification", {})
    vs = "tests: %s; demo with patch exit %s, without exit %s" % (ver.get("tests_with_patch", "?").split(" in ")[0],
                                                                 ver.get("demo_with_patch", ["?"])[0], ver.get("demo_without_patch", ["?"])[0])
    # the latest regression (tools/regress_seeded.sh, stored per seed) overrides the result of the first run
    checks = dict(v.get("checks", {}))
    latest = {}
    for k, x in v.get("other_seeds", {}).items():
        prop_tier, _, seed = k.rpartition("/seed")
        latest.setdefault(prop_tier, {})[seed] = x
    for prop_tier, per_seed in latest.items():
        if all(str(x).startswith("caught") for x in per_seed.values()):
            detail = checks.get(prop_tier, "")
            checks[prop_tier] = "caught at seeds %s%s" % (", ".join(sorted(per_seed)), (" " + detail[detail.index("["):])
                                                          if str(detail).startswith("caught") and "[" in detail else "")
        else:
            checks[prop_tier] = "; ".join("seed %s: %s" % (sd, str(x)[:60]) for sd, x in sorted(per_seed.items()))
    ch = "; ".join("%s: %s" % (k, str(x)[:140]) for k, x in sorted(checks.items()))
    if v.get("first_result"):
        ch = "first run: " + v["first_result"] + " -> now " + ch
    summ = str(m.get("summary", ""))[:260].replace("|", "/").replace("\n", " ")
    needs = str(m.get("needs", ""))[:260].replace("|", "/").replace("\n", " ")
    rows.append("| %s | %s | %s | %s | %s | %s |" % (sid, v.get("property"), summ, needs, vs, ch))
    if v.get("note"):
        rows.append("| | | note: %s | | | |" % v["note"])
open(os.path.join(V, "seeded", "RESULTS.md"), "w").write("\n".join(rows) + "\n")
print(len(rows) - 6, "seeded changes")
