#!/usr/bin/env python3
"""Write the prompts for a round of behaviour-preserving refactorings (false-alarm test of the checks).

usage: tools/benign_prompts.py <round-dir under /tmp>
Creates a scratch git worktree <round-dir>/<name> of /repo and <round-dir>/prompt_<name>.txt per area.
The prompts contain nothing from /verif.
"""
import os
import subprocess
import sys

AREAS = {
    "q-eventsetup": "pams/events/*.py - restructure the setup() methods of PriceLimitRule, TradingHaltRule, FundamentalPriceShock and "
                    "OrderMistakeShock: shared validation helpers, 'collect and validate first, then assign', precomputed id "
                    "sets / dicts of target markets used by the hooked_* methods (kept correct when setup is called again). "
                    "Settings that were refused before must be refused with the same exception type; settings accepted before "
                    "must configure the event identically, also when a refused setup() call is followed by a valid one on the "
                    "same object.",
    "q-execround": "pams/market.py Market._execution and Market._execute_orders - restructure the matching walk (helper for the "
                   "price decision, helper that restores the popped orders, early exits), keep exactly the same fills, logs, "
                   "series updates, exceptions (including the refusal when the market is not running, which must leave the "
                   "books exactly as they were) and heap contents (same iteration order of priority_queue afterwards).",
    "q-notify": "pams/runners/sequential.py SequentialRunner._handle_orders - remove the duplication between the normal-agent "
                "branch and the high-frequency branch by factoring a helper that places one order or cancel, runs the matching "
                "round when the session and market allow it, updates holdings and notifies agents and events in exactly the "
                "same order as now.",
    "q-hookdispatch": "pams/simulator.py - the nine _trigger_event_* methods and _add_event / _check_event_class_and_instance: "
                      "factor the repeated 'collect always-on hooks, then the hooks listed for this time, then filter' code "
                      "into one helper; no caching across calls; hooks must fire in the same order as now.",
    "q-fundsetters": "pams/fundamentals.py - change_volatility / change_drift / set_correlation / remove_correlation / add_market / "
                     "remove_market and _generate_log_return: shared validation helper, clearer handling of the symmetric "
                     "correlation key, covariance assembly with numpy broadcasting ONLY IF bit-identical (same operations in "
                     "the same order); a refused request must leave every attribute as it was.",
    "q-index": "pams/index_market.py - compute_fundamental_index / compute_market_index / setup / _add_market(s) / "
               "get_*index accessors: remove duplication with a shared weighted-mean helper (same floating-point operation "
               "order, so results are bit-identical), clearer component validation with the same exceptions.",
    "q-agentsbase": "pams/agents/base.py and pams/agents/high_frequency_agent.py - setup (cashAmount / assetVolume parsing via "
                    "JsonRandom), asset / cash accessors, is_market_accessible, default callbacks: tidy up with helpers, keep "
                    "the same random draws in the same order and the same exceptions.",
    "q-series": "pams/market.py - the get_*s(times) list accessors, _fill_until, _update_time and the per-step series "
                "(_market_prices, _last_executed_prices, _mid_prices, _fundamental_prices, _executed_volumes, "
                "_executed_total_prices, _n_buy_orders, _n_sell_orders): one generic accessor helper for scalar and list "
                "forms with the same refusal of future times, same handling of None / default time.",
}

AREAS4 = {
    "r-logger": "pams/logs/base.py (Logger.write / bulk_write / write_and_direct_process / _process / process and the Log.read_and_write* "
                "helpers) and pams/logs/market_step_loggers.py: dispatch table for the per-kind handlers, clearer buffering; every "
                "record must reach process() and its handler exactly as before, also for user loggers that override process(), "
                "only some handlers, or the write methods.",
    "r-session": "pams/session.py Session.setup and pams/runners/sequential.py _generate_sessions: table-driven parsing of the optional "
                 "and obsolete keys (fresh state per Session object, nothing shared between sessions or runs), one helper that creates "
                 "and registers the events of a session; same defaults, same warnings, same order of event set-up and hook registration.",
    "r-jsonutils": "pams/utils/json_random.py, pams/utils/json_extends.py, pams/utils/class_finder.py: clearer structure with helpers; "
                   "never modify any argument or shared state (settings dicts, bounds lists, class lists), same draws from the "
                   "generator in the same order, same exceptions for malformed input, cycles, missing parents and ambiguous names.",
    "r-expiry": "pams/order_book.py: the expiry bookkeeping (expire_time_list, _check_expired_orders, _set_time, _update_time, add, "
                "cancel, _remove, change_order_volume): tidy up with helpers while keeping the priority queue a valid heap at all "
                "times, same ExpirationLogs in the same order, same behaviour for cancels of orders that are already gone.",
    "r-haltrule": "pams/events/trading_halt_rule.py and pams/events/price_limit_rule.py: restructure hooked_after_execution / "
                  "hooked_before_step_for_market / hooked_before_order / get_limited_price with small helpers; read the public "
                  "target_markets dict at the time of each call (user subclasses extend it), same arithmetic expression for the "
                  "threshold (same floating-point operations in the same order), same state changes in the same order.",
    "r-runloop": "pams/runners/sequential.py: _run, _iterate_market_updates, _collect_orders_from_normal_agents and the session loop: "
                 "factor helpers for the begin/end log records and the per-step sequence; same records through the same logger "
                 "methods in the same order, hooks fired at the same points whether or not a logger is present, same random draws.",
    "r-agents2": "pams/agents/fcn_agent.py, market_maker_agent.py, arbitrage_agent.py, market_share_fcn_agent.py: split the long "
                 "submit_orders* methods into helpers (log-return terms, base price, basket construction) without any caching "
                 "across calls; same floating-point expressions in the same order, same random draws, same orders.",
    "r-simclock": "pams/simulator.py: _update_times_on_markets / _update_time_on_market / _add_market / _add_agent / "
                  "_update_agents_for_execution: helpers and clearer dispatch (isinstance-based, subclasses included); same order of "
                  "market updates (index markets after their components), same holdings arithmetic per fill, in fill order.",
}

AREAS5 = {
    "s-ordercmp": "pams/order.py: Order.__init__ validation, the comparison operators (__eq__, __ne__, __lt__, __le__, __gt__, __ge__, "
                  "_gt_lt, _compare_placed_at) and check_system_acceptable: express the priority as one documented helper (price "
                  "level signed by side, market orders first, then placed_at, then order_id) and derive all six operators from it "
                  "ONLY IF every operator returns exactly what it returns now for every pair of orders (same side or not, market "
                  "or limit, equal prices, equal times, unset placed_at / order_id) and raises what it raises now.",
    "s-bookheap": "pams/order_book.py: add / _remove / cancel / change_order_volume / get_best_order / get_best_price / "
                  "get_price_volume / __len__ / __contains__-like tests: small helpers, clearer names; priority_queue must stay a "
                  "valid heap after every public call with the same element order as now, same expiry buckets, same logs.",
    "s-addorder": "pams/market.py Market._add_order / _cancel_order / _execution / _execute_orders / _update_market_price: extract "
                  "helpers (validation, tick normalisation, log creation) and add OPTIONAL keyword-only parameters with defaults "
                  "that keep today's behaviour (e.g. a `validate: bool = True` switch used by nobody yet); every existing call "
                  "site keeps working unchanged, hooks and rounding happen in the same order as now.",
    "s-eventbase": "pams/events/base.py (EventHook, EventABC) and the hook_registration methods of the four bundled events: "
                   "validation of hook_type / time / specific_class / specific_instance via a table, clearer error messages with "
                   "the same exception types, hooks created in the same order with the same attribute values (time lists kept "
                   "as given, None kept as None, [] kept as []).",
    "s-simregistry": "pams/simulator.py: _add_agent / _add_market / _add_session / _add_event / _add_agents / _add_markets and the "
                     "id / name / group dictionaries: one private helper for 'register under id, name and group with duplicate "
                     "checks'; same exceptions for duplicates, same list orders, same dictionaries afterwards.",
    "s-fundchunks": "pams/fundamentals.py: get_fundamental_price / get_fundamental_prices / _generate_next / _generate_log_return: "
                    "helpers for 'make sure generated up to t', clearer variable names; the SAME calls to the generator with the "
                    "SAME sizes in the SAME order (chunk size 100, one block per chunk), same roll-back on parameter changes.",
    "s-logclasses": "pams/logs/base.py: the Log subclasses (OrderLog, CancelLog, ExecutionLog, ExpirationLog, the begin/end logs): "
                    "remove duplication in constructors with a small mixin or helper, keep every attribute name and value, keep "
                    "read_and_write / read_and_write_with_direct_process behaviour and the order in which records reach a logger.",
    "s-ticks": "pams/market.py: convert_to_tick_level / convert_to_tick_level_rounded_lower / _rounded_upper / convert_to_price and "
               "the rounding block of _add_order: shared private helper, clearer on-grid test; results must be bit-identical for "
               "every tick and price (including ticks like 0.1, 0.01, 1e-5, 3.0 and prices that are an ulp off the grid); "
               "user subclasses overriding the public converters must still be called exactly where they are called now, with "
               "the same arguments.",
}

TEMPLATE = """You are working in a git worktree of the open-source Python project masanorihirano/pams (PAMS: a pure-Python agent-based artificial market simulator) at {wt}. Work ONLY inside {wt}: do not read, list or modify /repo, /verif or any directory outside {wt} (the Python standard library / site-packages are fine).

Interpreter: /venv/bin/python. Test suite:
  cd {wt} && /venv/bin/python -m pytest -q -p no:cacheprovider --timeout=900 --deselect tests/samples/test_all.py::test_all -W ignore
(681 tests pass on the unchanged tree.) From inside {wt}, `import pams` resolves to this worktree's copy (use `cd {wt} && PYTHONPATH={wt} /venv/bin/python ...`).

YOUR TASK: make a genuine, non-trivial, BEHAVIOUR-PRESERVING refactoring / clean-up of this area:
  {area}
The kind of change a maintainer would merge as "refactor: ..." - 40 to 200 changed lines. Requirements:
  (a) observable behaviour must be EXACTLY preserved for every valid input AND for every input that is refused by design: same return values, same exception types in the same situations, same state left behind after a refusal, same log records in the same order, same order and number of random draws from every generator, same values in every public attribute and series, same method and attribute names on public AND underscore-prefixed methods that other modules call (e.g. Market._add_order/_cancel_order/_execution/_update_time, Simulator._trigger_event_*, Simulator._update_times_on_markets, Simulator._update_agents_for_execution, Simulator._add_event, Fundamentals._generate_log_return, SequentialRunner._setup/_run/_handle_orders, Logger.write/bulk_write/write_and_direct_process/_process/process_*, OrderBook.add/cancel/_remove). Behaviour seen by user-written subclasses (agents, events, loggers, markets overriding documented methods) must not change either. You may add new private helpers and restructure internals freely.
  (b) the entire test suite still passes (run it).
  (c) convince yourself of equivalence: write {wt}/equiv_check.py that runs several full simulations (e.g. the configs under samples/*/config.json with a fixed seed, plus scripted scenarios exercising your refactored area incl. corner cases such as refused calls followed by valid ones, cancels, expiries, market orders, multiple sessions, index markets, halts) on BOTH versions (copy the original package to {wt}/_orig_pams and import it under another name, or use `git stash`) and compares complete outputs (every log record, all price series, final holdings, relevant internal state). It must report identical results.
Do NOT fix bugs, change numerical results, reorder floating point operations in a way that can change results, or change any behaviour 'for the better' - this exercise is about pure refactoring. Do not modify tests.

Deliverables inside {wt}: the change left applied (uncommitted); {wt}/patch.diff = `git diff -- pams`; {wt}/equiv_check.py; {wt}/meta.json with keys: area, summary, why_equivalent, test_suite_result, equiv_check_result. Finally reply with a short summary.
"""


def main():
    rd = sys.argv[1]
    os.makedirs(rd, exist_ok=True)
    areas = {"4": AREAS4, "5": AREAS5}.get(sys.argv[2] if len(sys.argv) > 2 else "", AREAS)
    for name, area in areas.items():
        wt = os.path.join(rd, name)
        open(os.path.join(rd, "prompt_%s.txt" % name), "w").write(TEMPLATE.format(wt=wt, area=area))
        if not os.path.isdir(wt):
            subprocess.run(["git", "-C", "/repo", "worktree", "add", "--detach", wt, "HEAD"], check=True,
                           stdout=subprocess.DEVNULL, stderr=subprocess.DEVNULL)
        print(name, wt)


if __name__ == "__main__":
    main()
