#!/usr/bin/env python3
"""Write the prompts for a round of independent bug-seeding agents.

usage: tools/seed_prompts.py <round-dir under /tmp> [--angles a,b,c,...] [--props C01,C02]

For every property a scratch git worktree <round-dir>/<id> of /repo is created and a prompt file
<round-dir>/prompt_<id>.txt is written.  The prompt contains only the property's text (id, title,
statement, quantifier) and one-paragraph summaries of the changes other agents already produced for it
(so that mechanisms are not repeated) - nothing else from /verif.
"""
import argparse
import glob
import json
import os
import subprocess

HERE = os.path.dirname(os.path.dirname(os.path.abspath(__file__)))

ANGLES = {
    "interplay": "INTERPLAY OF TWO FEATURES: the break must need two features of the simulator used together, each of "
                 "which behaves correctly when used alone (e.g. an index market together with a trading halt, two "
                 "events in one session, high-frequency agents together with a session switch, market orders "
                 "together with expiries, cancels together with partial fills, two agent types sharing a market).",
    "tolerated": "BY-DESIGN TOLERATED PATH: pams tolerates or refuses several things by design (cancel of an order that "
                 "is already gone, a refused order / setup / configuration, an empty book, a market that is not "
                 "running, a session with zero steps, an agent that returns nothing). Put the break on what happens "
                 "AFTER such a tolerated or refused occurrence, when the same object is then used normally.",
    "publicapi": "PUBLIC API BESIDE THE RUNNER: pams is also a library. Users write their own agents, events, loggers and "
                 "scripts that call public methods and documented argument forms which the bundled runner and the "
                 "bundled agents do not use in that form (optional arguments, list-valued arguments, getters for past "
                 "times, direct use of Market / Simulator / Fundamentals / OrderBook). The break must show only "
                 "through such a documented-but-less-travelled entry point or argument form.",
    "late": "LATE OR CROSS-SESSION STATE: the break must be invisible in a one-session, short run. It needs state carried "
            "over a session boundary, or a count / list / cache that has to grow for a while (tens to hundreds of "
            "steps or orders) before the wrong behaviour shows.",
    "subclass": "USER SUBCLASS: the break must show only when the user supplies an ordinary subclass of a pams class "
                "(agent, high-frequency agent, market, event, logger, session) that overrides or extends a documented "
                "method in a way the documentation invites (calling super(), adding attributes, returning several "
                "orders / cancels). The bundled classes alone must behave as before. The user subclass must KEEP the "
                "documented meaning of everything it overrides (it may record, count, delegate to super(), add state) - a "
                "subclass that makes a getter return something else than documented does not count.",
}
ORDER = ["interplay", "tolerated", "publicapi", "late", "subclass"]

ANGLES2 = {
    "boundary": "BOUNDARY IN TIME OR SIZE: the break must sit exactly on a boundary - the first or last step of a session, "
                "step 0, the last step of the run, the step at which a time-to-live ends, an empty or one-element "
                "collection (one agent, one market, one order on a side, a session of one step), a count of exactly "
                "the configured maximum - and be invisible one unit away from it.",
    "ordering": "ORDER DEPENDENCE: the break must depend on the ORDER in which things are declared or happen - the order of "
                "markets / agents / events / sessions in the configuration, of keys inside a settings block, of orders "
                "inside one submission, of two operations inside one step - with the common order behaving correctly.",
    "errorpath": "EXCEPTION PATH AND PARTIAL STATE: pams raises on purpose in many places. Put the break on what is left "
                 "behind when one of these deliberate exceptions is raised half-way (a list already appended to, a "
                 "counter already incremented, a flag already set) and the caller catches it and carries on, or on a "
                 "`try/except/finally` or early `return` that skips a step that must always happen.",
    "defaults": "DEFAULTS AND OPTIONAL SETTINGS: the break must only show when an OPTIONAL setting or argument is left out "
                "(so that its default applies) or is given explicitly with the value that equals the default, or when "
                "an optional block of the configuration is absent / empty.",
    "numeric": "NUMERIC CORNER WITH ORDINARY VALUES: the break must come from arithmetic on ordinary floats and ints a user "
               "would write (0.1, 0.25, 1/3, 1e-5, 1000000, equal values, values differing in the last digit): a "
               "comparison that should be <= instead of <, a rounding direction, integer versus true division, an "
               "accumulation order, a sum that should be a mean - not tolerances like isclose and not exotic types.",
}
ORDER2 = ["boundary", "ordering", "errorpath", "defaults", "numeric"]

ANGLES3 = {
    "plainslip": "PLAIN SLIP IN THE MAIN PATH: no exotic trigger at all. The break must be a small, ordinary slip (one token, one "
                 "operator, one index, one swapped pair of arguments, one wrong sign) in code that EVERY ordinary run executes, "
                 "and it must change the outcome of ordinary runs with the bundled agents and samples/-like configurations - yet the "
                 "681 tests still pass. Look for what the tests do not pin down (they check many things only loosely).",
    "symmetric": "SYMMETRIC CODE, ONE SIDE WRONG: pams has many pairs of near-identical blocks (buy / sell, before / after, normal / "
                 "high-frequency agents, begin / end, market / index market, set / remove). Put the break into exactly ONE of the two "
                 "twins (a wrong variable copied from the other twin, a condition not mirrored), so that only one side misbehaves.",
    "scale": "NEEDS SIZE: the break must need a size that unit-sized scenarios do not have - a hundred or more agents, several "
             "hundred steps (pams stores series and generates fundamentals in blocks of 100), five or more markets, books with dozens "
             "of orders per side, ten or more sessions - and be invisible below that size.",
    "stateleak": "STATE NOT RESET OR NOT COPIED: the break must come from state that should be fresh per step / per session / per run / "
                 "per object but is shared or carried over (a mutable default, a class attribute, an alias of a settings dict or list "
                 "instead of a copy, a counter not reset at a boundary, a list extended instead of replaced).",
    "config": "CONFIGURATION SHAPE: the break must depend on a valid but less common SHAPE of the JSON configuration - groups created "
              "with numMarkets / numAgents or from / to, chains of extends, agents listing several market groups, an index market "
              "over a market group, several events in one session, a session list with different flags per session, names that are "
              "prefixes of other names, two-digit ids - with the common shape behaving correctly.",
}
ORDER3 = ["plainslip", "symmetric", "scale", "stateleak", "config"]

TEMPLATE = """You are working in a git worktree of the open-source Python project masanorihirano/pams (PAMS: a pure-Python agent-based artificial market simulator with a limit order book matching engine, sessions, events and stochastic fundamental price generation). The worktree is at {wt}. Work ONLY inside {wt}: do not read, list or modify /repo, /verif or any other directory outside {wt} (reading the Python standard library or site-packages is fine).

Interpreter: /venv/bin/python (numpy, scipy, pytest installed). Run the project's test suite with:
  cd {wt} && /venv/bin/python -m pytest -q -p no:cacheprovider --timeout=900 --deselect tests/samples/test_all.py::test_all -W ignore
(681 tests pass on the unchanged tree; tests/samples/test_all.py::test_all is known to fail independently and is deselected.) When you run Python from inside {wt}, `import pams` resolves to this worktree's copy; for scripts use `cd {wt} && PYTHONPATH={wt} /venv/bin/python script.py` and check `pams.__file__`.

Here is a semantic property that pams is supposed to satisfy:

  id: {id}
  title: {title}
  statement: {statement}
  it must hold: {quant}

YOUR TASK: act as a bug seeder. Produce ONE small change to the source files under {wt}/pams (a realistic mistake a developer could introduce: a refactoring slip, an off-by-one, a wrong variable, a dropped or weakened guard, a changed default, an 'optimisation' that is wrong in a corner, or two cooperating sites that each look fine alone) such that:
  (a) the package still imports and compiles;
  (b) the ENTIRE existing test suite (command above) still passes with your change - run it and confirm;
  (c) the property above is BROKEN by the change, i.e. there exists a concrete input / configuration / history of operations for which the statement is false;
  (d) the break needs something SPECIFIC to manifest: a particular sequence of operations, an unusual but valid input or configuration, a particular timing inside a run, not something that every ordinary run would expose immediately. Prefer subtle over blatant. Do NOT just delete functionality wholesale, and do not add code that looks deliberately malicious (no magic constants without plausible reason).

DIVERSITY REQUIREMENT: other engineers have already produced the following seeded bugs for this property; yours must use a DIFFERENT mechanism and, if at all possible, live in a DIFFERENT function (do not reuse them or trivial variants):
{taken}

ANGLE FOR THIS ROUND - {angle}
The inputs that trigger it must be ordinary Python types and values a normal user would write (no exotic numeric types, no objects with overridden truthiness, no monkey-patching) - the difficulty must come from the situation, not from odd types.

Then write a demonstration: a standalone script {wt}/demo_seed.py that uses the public/runner-level API of pams (e.g. builds a config dict and runs pams.runners.SequentialRunner with custom Agent / Logger / Event subclasses, or drives pams.Market directly the way the runner does), checks the property on a concrete scenario, and exits 0 with a message if the property holds there, and exits 1 printing what was violated if not. It must exit 1 WITH your change and exit 0 WITHOUT it - verify both (use `git stash` / `git stash pop`, or `git diff > patch.diff; git checkout -- pams; ...; git apply patch.diff`). The demonstration must be deterministic (same result on every execution, for any PYTHONHASHSEED).

Deliverables, all inside {wt}:
  1. the change left applied in the working tree (not committed);
  2. {wt}/patch.diff  = output of `git diff -- pams` (only files under pams/);
  3. {wt}/demo_seed.py;
  4. {wt}/meta.json with keys: property, summary (what the change does), needs (what exactly is required for the break to manifest), files_changed, test_suite_result (e.g. "681 passed"), demo_with_change (exit code + last line), demo_without_change (exit code + last line).
Finally reply with a short summary (what you changed, why it breaks the property, what it needs to manifest, test results). Do not ask questions; make reasonable choices yourself.
"""


def main():
    ap = argparse.ArgumentParser()
    ap.add_argument("round_dir")
    ap.add_argument("--props", default="")
    ap.add_argument("--shift", type=int, default=0, help="rotate the angle assignment")
    ap.add_argument("--no-worktree", action="store_true")
    ap.add_argument("--set", type=int, default=1, help="1 = first set of angles, 2 = second set, 3 = third set")
    a = ap.parse_args()
    props = [json.loads(l) for l in open(os.path.join(HERE, "properties.jsonl")) if l.strip()]
    only = set(filter(None, a.props.split(",")))
    os.makedirs(a.round_dir, exist_ok=True)
    for i, p in enumerate(props):
        if only and p["id"] not in only:
            continue
        wt = os.path.join(a.round_dir, p["id"])
        taken = []
        for d in sorted(glob.glob(os.path.join(HERE, "seeded", "S-%s-*" % p["id"]))):
            try:
                m = json.load(open(os.path.join(d, "meta.json")))
            except Exception:  # noqa
                continue
            taken.append('    - "%s"' % str(m.get("summary", ""))[:420].replace("\n", " "))
        angles, order = {1: (ANGLES, ORDER), 2: (ANGLES2, ORDER2), 3: (ANGLES3, ORDER3)}[a.set]
        angle = angles[order[(i + a.shift) % len(order)]]
        q = p.get("quantifier")
        quant = q.get("text") if isinstance(q, dict) else str(q)
        txt = TEMPLATE.format(wt=wt, id=p["id"], title=p["title"], statement=p["statement"], quant=quant,
                              taken="\n".join(taken) or "    (none yet)", angle=angle)
        open(os.path.join(a.round_dir, "prompt_%s.txt" % p["id"]), "w").write(txt)
        if not a.no_worktree and not os.path.isdir(wt):
            subprocess.run(["git", "-C", "/repo", "worktree", "add", "--detach", wt, "HEAD"], check=True,
                           stdout=subprocess.DEVNULL, stderr=subprocess.DEVNULL)
        print(p["id"], order[(i + a.shift) % len(order)], wt)


if __name__ == "__main__":
    main()
