#!/usr/bin/env python3
"""Run every check against a behaviour-preserving change (false-alarm test).

usage: tools/benign.py import <src_dir> <name>
       tools/benign.py check <name> [--tier quick] [props...]
"""
import json
import os
import shutil
import subprocess
import sys

sys.path.insert(0, os.path.dirname(os.path.abspath(__file__)))
from seeded import PY, VERIF, scratch  # noqa

ALL = ["C%02d" % i for i in range(1, 21)]


def main():
    a = sys.argv[1:]
    if a[0] == "import":
        dst = os.path.join(VERIF, "benign", a[2])
        os.makedirs(dst, exist_ok=True)
        for f in ("patch.diff", "meta.json", "equiv_check.py"):
            if os.path.exists(os.path.join(a[1], f)):
                shutil.copy(os.path.join(a[1], f), os.path.join(dst, f))
        print("imported", dst)
        return 0
    name = a[1]
    tier = "quick"
    rest = a[2:]
    if "--tier" in rest:
        i = rest.index("--tier")
        tier = rest[i + 1]
        del rest[i:i + 2]
    props = rest or ALL
    dst = os.path.join(VERIF, "benign", name)
    d, repo = scratch(os.path.join(dst, "patch.diff"))
    out = {}
    try:
        r = subprocess.run([PY, "-m", "pytest", "-q", "-p", "no:cacheprovider", "--timeout=900", "--deselect",
                            "tests/samples/test_all.py::test_all", "-W", "ignore"], cwd=repo,
                           env=dict(os.environ, PYTHONDONTWRITEBYTECODE="1"), capture_output=True, text=True)
        out["tests"] = r.stdout.strip().splitlines()[-1][:100]
        env = dict(os.environ, PAMS_REPO=repo, PAMS_EVIDENCE_DIR=os.path.join(d, "ev"), PAMS_REPLAY_DIR=os.path.join(d, "rp"))
        procs = {p: subprocess.Popen([os.path.join(VERIF, "check"), p, "--tier", tier], cwd=VERIF, env=env,
                                     stdout=subprocess.PIPE, stderr=subprocess.STDOUT, text=True) for p in props}
        for p, pr in procs.items():
            o, _ = pr.communicate()
            if pr.returncode == 0:
                out[p] = "silent"
            else:
                lines = [l for l in o.splitlines() if l.startswith(("violated", "INCONCLUSIVE", "CHECK-ERROR", "  detail"))]
                out[p] = "rc=%d %s" % (pr.returncode, " | ".join(lines[:3])[:900])
    finally:
        shutil.rmtree(d, ignore_errors=True)
    rp = os.path.join(dst, "result.json")
    old = json.load(open(rp)) if os.path.exists(rp) else {}
    old[tier] = out
    json.dump(old, open(rp, "w"), indent=1)
    alarms = {k: v for k, v in out.items() if k != "tests" and v != "silent"}
    print(name, "tests:", out["tests"], "| alarms:", json.dumps(alarms) if alarms else "none")
    return 0


if __name__ == "__main__":
    sys.exit(main())
