#!/usr/bin/env python3
"""turn tools/mutate.py output (stdin or files) into mutants/RESULTS.md"""
import glob
import json
import os
import sys

VERIF = os.path.dirname(os.path.dirname(os.path.abspath(__file__)))
EQUIV = {
    "S09-running-flag-not-reset": "C09 has no claim about the flag itself; since seeded round 17 C08 reports the consequence (the market price moves in a session without execution)",
    "X01-cycle-check-skips-self": "equivalent: a self-loop is reported one iteration later",
    "A14-arb-acts-when-component-stopped": "outside the statement (C20 says nothing about stopped markets); observed, not judged",
    "Q17-both-market-branch-strict": "not a violation: the engine merely matches more market-order pairs (outside C03's premise)",
    "Q19-session-end-not-flushed": "not a violation of C10 as stated: every record is still processed no later than the next session boundary",
    "m04-no-break-on-noncrossing": "C03's post-condition is unaffected; the break is a C01 violation (caught there)",
}


def main():
    notes = {}
    for f in sorted(glob.glob(os.path.join(VERIF, "mutants", "*.json"))):
        for m in json.load(open(f)):
            files = sorted({e["file"] for e in m.get("edits", [])} | ({m["file"]} if "file" in m else set()) | ({m["patch"]} if "patch" in m else set()))
            notes[m["id"]] = (os.path.basename(f), ", ".join(files))
    rows = {}
    for path in sys.argv[1:]:
        for line in open(path):
            line = line.strip()
            if " {" not in line or line.startswith("mutants with"):
                continue
            mid, js = line.split(" ", 1)
            try:
                d = json.loads(js)
            except ValueError:
                continue
            rows.setdefault(mid, {}).update(d)
    out = ["# Deliberate breaks (tools/mutate.py, quick tier, seed 0)", "",
           "| mutant | where | baseline tests | checks |", "|---|---|---|---|"]
    for mid in sorted(rows):
        d = rows[mid]
        tests = d.pop("tests", "-")
        tests = "pass" if tests == "pass" else ("fail" if str(tests).startswith("FAIL") else tests)
        checks = "; ".join("%s: %s" % (k, str(v)[:110]) for k, v in sorted(d.items()))
        if mid in EQUIV:
            checks += " — *" + EQUIV[mid] + "*"
        out.append("| %s | %s | %s | %s |" % (mid, notes.get(mid, ("", ""))[1], tests, checks))
    n = len(rows)
    miss = [m for m, d in rows.items() if any(str(v).startswith("MISSED") for v in d.values()) and m not in EQUIV]
    out += ["", "%d breaks; not caught by a listed check and not explained above: %s" % (n, ", ".join(miss) or "none")]
    open(os.path.join(VERIF, "mutants", "RESULTS.md"), "w").write("\n".join(out) + "\n")
    print("\n".join(out[-2:]))


if __name__ == "__main__":
    main()
