#!/usr/bin/env python3
"""Confront the checks with deliberate breaks (DESIGN.md section 4.2).

usage: tools/mutate.py [--tests] [--tier quick] [--only ID[,ID]] [--jobs N] mutants/*.json

A mutant file is a list of {"id":…, "file":"pams/…", "old":…, "new":…, "props":["C01",…], "note":…}.
Each mutant is applied to a scratch copy of /repo outside /repo and /verif, the listed checks are
run against it (PAMS_REPO), the scratch copy is removed.  Output: one line per (mutant, property):
caught (exit 1) / MISSED (exit 0) / inconclusive (exit 2).  With --tests the baseline test suite
is also run on the scratch copy to confirm that the mutant is not caught by the existing tests.
"""
import argparse
import concurrent.futures
import json
import os
import shutil
import subprocess
import sys
import tempfile

VERIF = os.path.dirname(os.path.dirname(os.path.abspath(__file__)))


def run_one(m, tier, tests, seed):
    d = tempfile.mkdtemp(prefix="pamsmut-")
    try:
        repo = os.path.join(d, "repo")
        shutil.copytree("/repo", repo, ignore=shutil.ignore_patterns(".git", "__pycache__", "docs", "examples", "*.ipynb"))
        if m.get("patch"):
            r = subprocess.run(["git", "apply", "--unsafe-paths", "--directory=" + repo, os.path.join(VERIF, m["patch"])],
                               cwd=repo, capture_output=True, text=True)
            if r.returncode != 0:
                r = subprocess.run(["patch", "-p1", "-i", os.path.join(VERIF, m["patch"])], cwd=repo, capture_output=True, text=True)
                if r.returncode != 0:
                    return m["id"], {"error": "patch failed: " + r.stdout + r.stderr}
            edits = []
        else:
            edits = m.get("edits") or [{"file": m["file"], "old": m["old"], "new": m["new"]}]
        for e in edits:
            p = os.path.join(repo, e["file"])
            s = open(p).read()
            if s.count(e["old"]) != 1:
                return m["id"], {"error": "pattern occurs %d times in %s" % (s.count(e["old"]), e["file"])}
            open(p, "w").write(s.replace(e["old"], e["new"]))
        out = {}
        env = dict(os.environ, PAMS_REPO=repo, PAMS_EVIDENCE_DIR=os.path.join(d, "ev"), PAMS_REPLAY_DIR=os.path.join(d, "rp"),
                   VERIF_SEED=str(seed))
        if tests:
            r = subprocess.run(
                ["/venv/bin/python", "-m", "pytest", "-q", "-x", "-p", "no:cacheprovider", "--timeout=900",
                 "--deselect", "tests/samples/test_all.py::test_all", "-W", "ignore"],
                cwd=repo, env=dict(os.environ, PYTHONDONTWRITEBYTECODE="1"), capture_output=True, text=True)
            out["tests"] = "pass" if r.returncode == 0 else "FAIL: " + r.stdout.strip().splitlines()[-1][:200]
        for prop in m["props"]:
            r = subprocess.run([os.path.join(VERIF, "check"), prop, "--tier", tier], cwd=VERIF, env=env,
                               capture_output=True, text=True)
            mech = [l for l in r.stdout.splitlines() if l.startswith("violated ")]
            out[prop] = {0: "MISSED", 1: "caught", 2: "inconclusive"}.get(r.returncode, "rc=%d" % r.returncode)
            if r.returncode == 1:
                out[prop] += " [" + "; ".join(x.split("mechanism=")[-1] for x in mech[:3]) + "]"
            elif r.returncode != 0:
                out[prop] += " " + r.stdout.strip()[-300:].replace("\n", " | ")
        return m["id"], out
    finally:
        shutil.rmtree(d, ignore_errors=True)


def main():
    ap = argparse.ArgumentParser()
    ap.add_argument("files", nargs="+")
    ap.add_argument("--tests", action="store_true")
    ap.add_argument("--tier", default="quick")
    ap.add_argument("--only", default=None)
    ap.add_argument("--jobs", type=int, default=4)
    ap.add_argument("--seed", type=int, default=0)
    a = ap.parse_args()
    muts = []
    for f in a.files:
        muts.extend(json.load(open(f)))
    if a.only:
        ids = set(a.only.split(","))
        muts = [m for m in muts if m["id"] in ids or any(m["id"].startswith(i) for i in ids)]
    bad = 0
    with concurrent.futures.ThreadPoolExecutor(a.jobs) as ex:
        for mid, out in ex.map(lambda m: run_one(m, a.tier, a.tests, a.seed), muts):
            print(mid, json.dumps(out))
            sys.stdout.flush()
            if any(isinstance(v, str) and v.startswith("MISSED") for v in out.values()):
                bad += 1
    print("mutants with a miss: %d / %d" % (bad, len(muts)))
    return 0


if __name__ == "__main__":
    sys.exit(main())
