#!/bin/sh
# usage: tools/sweep.sh <tier> <seed...>   -- run every check for the given seeds, print one line per run
tier=$1; shift
cd "$(dirname "$0")/.."
for seed in "$@"; do
  for i in $(seq -w 1 20); do
    out=$(PAMS_EVIDENCE_DIR=${PAMS_EVIDENCE_DIR:-/tmp/pamsmon-sweep-ev} ./check C$i --tier $tier --seed $seed 2>&1)
    rc=$?
    echo "seed=$seed C$i rc=$rc $(echo "$out" | grep -E '^C[0-9]+ tier' | tail -1)"
    if [ $rc -ne 0 ]; then echo "$out" | grep -E 'VIOLATION|INCONCLUSIVE|violated|CHECK-ERROR' | head -5 | cut -c1-700; fi
  done
done
