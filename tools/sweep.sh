#!/bin/sh
# usage: tools/sweep.sh <tier> <seed...>   -- run every check for the given seeds, print one line per run;
# evidence of every run is kept under $SWEEP_EV/<seed>/ (default /tmp/pamsmon-sweep-ev) for tools/margins.py
tier=$1; shift
cd "$(dirname "$0")/.."
base=${SWEEP_EV:-/tmp/pamsmon-sweep-ev}
for seed in "$@"; do
  for i in $(seq -w 1 20); do
    out=$(PAMS_EVIDENCE_DIR=$base/$tier-$seed ./check C$i --tier $tier --seed $seed 2>&1)
    rc=$?
    echo "seed=$seed C$i rc=$rc $(echo "$out" | grep -E '^C[0-9]+ tier' | tail -1)"
    if [ $rc -ne 0 ]; then echo "$out" | grep -E 'VIOLATION|INCONCLUSIVE|violated|CHECK-ERROR' | head -5 | cut -c1-700; fi
  done
done
