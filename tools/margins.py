#!/usr/bin/env python3
"""smallest observed/required ratio of every REQUIRED situation class over the evidence files of a sweep"""
import glob, json, os, sys
base = sys.argv[1] if len(sys.argv) > 1 else "/tmp/pamsmon-sweep-ev"
worst = {}
for f in glob.glob(os.path.join(base, "*", "C*.json")):
    e = json.load(open(f))
    cov = e["coverage"]
    for k, need in cov.get("required_classes", {}).items():
        got = cov["situation_classes"].get(k, 0)
        r = got / need if need else 99
        key = (e["property_id"], e["tier"], k)
        if key not in worst or r < worst[key][0]:
            worst[key] = (r, got, need, e["seed"])
for (p, t, k), (r, got, need, seed) in sorted(worst.items(), key=lambda x: x[1][0])[:40]:
    print("%-4s %-8s %-55s min ratio %.2f (%d / %d at seed %s)" % (p, t, k, r, got, need, seed))
