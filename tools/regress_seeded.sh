#!/bin/sh
# re-run every kept seeded change against its check(s) (quick tier); prints the ones that are no longer caught
# usage: tools/regress_seeded.sh [jobs] [seed]
cd "$(dirname "$0")/.."
jobs=${1:-6}
seedarg=""; [ -n "$2" ] && seedarg="--seed $2"
out=$(mktemp -d /tmp/regress-seeded.XXXXXX)
ls seeded | grep '^S-' | xargs -P "$jobs" -I{} sh -c "python3 tools/seeded.py check {} $seedarg > $out/{}.log 2>&1"
missed=0
for f in "$out"/*.log; do
  if ! tail -1 "$f" | grep -q caught; then echo "NOT CAUGHT: $(tail -1 "$f" | cut -c1-300)"; missed=$((missed+1)); fi
done
echo "seeded changes not caught: $missed / $(ls "$out" | wc -l)"
rm -rf "$out"
