#!/usr/bin/env python3
"""Validate and evaluate a change seeded by an independent agent.

usage: tools/seeded.py import <src_dir> <id> <property>     copy patch.diff/demo_seed.py/meta.json into seeded/<id>/
       tools/seeded.py verify <id>                           tests pass with patch; demo fails with / passes without
       tools/seeded.py check <id> [props...] [--tier T]      run checks against a scratch copy with the patch applied
All work happens on scratch copies of /repo outside /repo and /verif, removed afterwards.
"""
import json
import os
import shutil
import subprocess
import sys
import tempfile

VERIF = os.path.dirname(os.path.dirname(os.path.abspath(__file__)))
PY = "/venv/bin/python"


def scratch(patch=None):
    d = tempfile.mkdtemp(prefix="pamsseed-")
    repo = os.path.join(d, "repo")
    shutil.copytree("/repo", repo, ignore=shutil.ignore_patterns(".git", "__pycache__", "docs", "examples", "*.ipynb"))
    if patch:
        r = subprocess.run(["patch", "-p1", "-s", "-i", patch], cwd=repo, capture_output=True, text=True)
        if r.returncode != 0:
            raise SystemExit("patch does not apply: " + r.stdout + r.stderr)
    return d, repo


def cmd_import(src, sid, prop):
    dst = os.path.join(VERIF, "seeded", sid)
    os.makedirs(dst, exist_ok=True)
    for f in ("patch.diff", "demo_seed.py", "meta.json"):
        shutil.copy(os.path.join(src, f), os.path.join(dst, f))
    # the agent's meta stays as written; ours goes next to it
    with open(os.path.join(dst, "verif.json"), "w") as f:
        json.dump({"property": prop, "source": "independent agent given only the property text and a scratch worktree"}, f, indent=1)
    print("imported", dst)


def run_demo(repo, demo):
    shutil.copy(demo, os.path.join(repo, "demo_seed.py"))
    r = subprocess.run([PY, "demo_seed.py"], cwd=repo, env=dict(os.environ, PYTHONPATH=repo, PYTHONDONTWRITEBYTECODE="1"),
                       capture_output=True, text=True, timeout=600)
    last = (r.stdout.strip().splitlines() or [""])[-1][:300]
    return r.returncode, last


def cmd_verify(sid):
    dst = os.path.join(VERIF, "seeded", sid)
    patch = os.path.join(dst, "patch.diff")
    demo = os.path.join(dst, "demo_seed.py")
    out = {}
    d, repo = scratch(patch)
    try:
        r = subprocess.run([PY, "-m", "pytest", "-q", "-p", "no:cacheprovider", "--timeout=900", "--deselect",
                            "tests/samples/test_all.py::test_all", "-W", "ignore"], cwd=repo,
                           env=dict(os.environ, PYTHONDONTWRITEBYTECODE="1"), capture_output=True, text=True)
        out["tests_with_patch"] = r.stdout.strip().splitlines()[-1][:200]
        out["demo_with_patch"] = run_demo(repo, demo)
    finally:
        shutil.rmtree(d, ignore_errors=True)
    d, repo = scratch(None)
    try:
        out["demo_without_patch"] = run_demo(repo, demo)
    finally:
        shutil.rmtree(d, ignore_errors=True)
    out["valid"] = ("passed" in out["tests_with_patch"] and "failed" not in out["tests_with_patch"]
                    and out["demo_with_patch"][0] != 0 and out["demo_without_patch"][0] == 0)
    vp = os.path.join(dst, "verif.json")
    v = json.load(open(vp)) if os.path.exists(vp) else {}
    v["verification"] = out
    json.dump(v, open(vp, "w"), indent=1)
    print(sid, json.dumps(out))
    return 0 if out["valid"] else 1


def cmd_check(sid, props, tier, seed=None):
    dst = os.path.join(VERIF, "seeded", sid)
    vp = os.path.join(dst, "verif.json")
    v = json.load(open(vp)) if os.path.exists(vp) else {}
    props = props or v.get("check_props") or [v.get("property")]
    d, repo = scratch(os.path.join(dst, "patch.diff"))
    res = {}
    try:
        env = dict(os.environ, PAMS_REPO=repo, PAMS_EVIDENCE_DIR=os.path.join(d, "ev"), PAMS_REPLAY_DIR=os.path.join(d, "rp"))
        for p in props:
            r = subprocess.run([os.path.join(VERIF, "check"), p, "--tier", tier] + (["--seed", str(seed)] if seed is not None else []),
                               cwd=VERIF, env=env, capture_output=True, text=True)
            mech = [l.split("mechanism=")[-1] for l in r.stdout.splitlines() if l.startswith("violated ")]
            res[p] = {0: "MISSED", 1: "caught", 2: "inconclusive"}.get(r.returncode, "rc=%d" % r.returncode) + \
                (" [" + "; ".join(mech[:3]) + "]" if mech else "")
            if r.returncode not in (0, 1):
                res[p] += " " + r.stdout.strip()[-300:].replace("\n", " | ")
    finally:
        shutil.rmtree(d, ignore_errors=True)
    if seed is None:
        v.setdefault("checks", {}).update({"%s/%s" % (p, tier): r for p, r in res.items()})
        json.dump(v, open(vp, "w"), indent=1)
    else:
        v.setdefault("other_seeds", {}).update({"%s/%s/seed%s" % (p, tier, seed): r.split(" [")[0] for p, r in res.items()})
        json.dump(v, open(vp, "w"), indent=1)
    print(sid, json.dumps(res))


def main():
    a = sys.argv[1:]
    if a[0] == "import":
        return cmd_import(a[1], a[2], a[3])
    if a[0] == "verify":
        return cmd_verify(a[1])
    if a[0] == "check":
        tier = "quick"
        if "--tier" in a:
            i = a.index("--tier")
            tier = a[i + 1]
            del a[i:i + 2]
        seed = None
        if "--seed" in a:
            i = a.index("--seed")
            seed = int(a[i + 1])
            del a[i:i + 2]
        return cmd_check(a[1], a[2:], tier, seed)


if __name__ == "__main__":
    sys.exit(main())
