"""pytest plugin (exploration aid, not a registered check): runs the repository's own tests with the passive
matching monitors (C01, C02, C03) attached to every Market.  A monitor that fires here is either too strict or has
found a defect the tests do not assert; read the witness before deciding.

usage:  cd /repo && PYTHONPATH=/verif /venv/bin/python -m pytest -q -p no:cacheprovider -p tools.pytest_monitors ...
        (summary is printed at the end of the session and written to $PAMS_PYTEST_MON_OUT if set)
"""
import collections
import json
import os
import sys

sys.path.insert(0, os.path.dirname(os.path.dirname(os.path.abspath(__file__))))

from pamsmon import bootstrap  # noqa: E402

bootstrap.init()
from pamsmon import taps  # noqa: E402
from pamsmon.core import Result  # noqa: E402
from pamsmon.props.c01 import C01Monitor  # noqa: E402
from pamsmon.props.c02 import C02Monitor  # noqa: E402
from pamsmon.props.c03 import C03Monitor  # noqa: E402

STATE = {"mons": [], "res": None, "test": None, "by_test": collections.OrderedDict(), "events": 0, "rounds": 0}


class PerObject:
    """the trackers key their shadow books by market id; unit tests create many markets with the same id, so a
    new market object with a known id starts a fresh set of monitors."""

    def __init__(self):
        self.sets = {}

    def on_event(self, ev):
        m = ev.get("mkt")
        if m is None:
            return
        STATE["events"] += 1
        key = id(m)
        s = self.sets.get(key)
        if s is None or s[0] is not m:
            res = STATE["res"]
            mons = [C01Monitor(res, "direct"), C02Monitor(res), ]
            s = self.sets[key] = (m, mons)
        for mon in s[1]:
            try:
                mon.on_event(ev)
            except Exception as e:  # noqa
                STATE["res"].count("monitor_raised:%s:%s" % (type(mon).__name__, type(e).__name__))


def pytest_configure(config):
    taps.install()


def pytest_runtest_setup(item):
    STATE["test"] = item.nodeid
    STATE["res"] = Result() if _result_noargs() else _mk_result()
    STATE["po"] = PerObject()
    taps.add_sink(STATE["po"].on_event)


def _result_noargs():
    try:
        Result()
        return True
    except TypeError:
        return False


def _mk_result():
    import inspect

    sig = inspect.signature(Result.__init__)
    kw = {}
    for name, p in list(sig.parameters.items())[1:]:
        if p.default is inspect._empty:
            kw[name] = "pytest"
    return Result(**kw)


def pytest_runtest_teardown(item):
    po = STATE.pop("po", None)
    if po is not None:
        taps.remove_sink(po.on_event)
    res = STATE["res"]
    if res is None:
        return
    v = getattr(res, "violations", None) or []
    if v:
        STATE["by_test"][item.nodeid] = [
            {"mechanism": x.get("mechanism"), "clause": x.get("clause"), "detail": x.get("detail")} for x in v[:3]]
    STATE["rounds"] += res.counters.get("rounds", 0)
    STATE.setdefault("agg", collections.Counter()).update(res.counters)


def pytest_sessionfinish(session, exitstatus):
    out = {"tests_with_monitor_reports": len(STATE["by_test"]), "events": STATE["events"], "reports": STATE["by_test"],
           "counters": dict(STATE.get("agg", {}))}
    sys.stderr.write("\n[pamsmon] counters: %s\n" % json.dumps({k: v for k, v in sorted(STATE.get("agg", {}).items())
                                                                 if not k.startswith("class/")}))
    path = os.environ.get("PAMS_PYTEST_MON_OUT")
    if path:
        json.dump(out, open(path, "w"), indent=1, default=repr)
    sys.stderr.write("\n[pamsmon] events observed: %d; tests with monitor reports: %d\n" % (STATE["events"], len(STATE["by_test"])))
    for k, v in list(STATE["by_test"].items())[:40]:
        sys.stderr.write("  %s: %s\n" % (k, sorted({x["mechanism"] for x in v})))
